// Finding: scope-limit-misattribution
//
// Properties: C02 (parent id / trace id of delivered records), C05 (nothing of an unsampled trace
//             is delivered), C11 (current_local_parent identifies the span set as local parent).
//
// Violated clauses:
//   C02: "every other record's parent id is the id of the span that was its parent at creation:
//         ... the span set as local parent ..." and "the trace id is the one supplied when that
//         trace's root was created".
//   C05: "A trace whose root is created with sampled=false produces no reporter output at all:
//         not for ... any descendant span ..., local span, event, property".
//   C11: "SpanContext::current_local_parent() [returns] those of the innermost local parent".
//
// Cause: fastrace/src/local/local_span_stack.rs:71-73 (`register_span_line` returns `None` once
//   4096 scopes are open on the thread), fastrace/src/local/local_collector.rs:137-147
//   (`LocalCollector::new` turns that into a collector without `inner`) and
//   fastrace/src/span.rs:526-531 (`capture_local_spans` wraps it in a live-looking
//   `LocalParentGuard`).  Nothing is pushed on the scope stack, so
//   `LocalSpanStack::current_span_line()` (local_span_stack.rs:137-139) keeps answering with the
//   ENCLOSING scope: every local span / event / property / `Span::enter_with_local_parent` /
//   `SpanContext::current_local_parent()` issued "under" the new local parent is silently
//   attributed to whatever span owns the 4096th scope -- a different span, possibly of a
//   different trace, possibly of a sampled trace while the intended parent is unsampled.
//   The records are not lost (which the properties would allow); they are delivered in the wrong
//   trace under the wrong parent.
//
// Run (from /tmp/hunt-B): cp findings/scope_limit_misattribution.rs fastrace/tests/scope_limit_misattribution.rs && cargo test --offline --manifest-path fastrace/Cargo.toml --test scope_limit_misattribution -- --test-threads=1

use std::time::Duration;

use fastrace::collector::Config;
use fastrace::collector::TestReporter;
use fastrace::prelude::*;

const SCOPE_LIMIT: usize = 4096;

fn run(b_sampled: bool) -> (Vec<SpanRecord>, SpanId, SpanId, Option<SpanContext>, Option<SpanContext>)
{
    let (reporter, collected) = TestReporter::new();
    fastrace::set_reporter(
        reporter,
        Config::default().report_interval(Duration::from_secs(3600)),
    );

    let a_id;
    let b_id;
    let ctx_seen;
    let ctx_of_child;
    {
        let root_a = Span::root("A", SpanContext::new(TraceId(0xA), SpanId(0)));
        a_id = SpanContext::from_span(&root_a).unwrap().span_id;

        // A well-scoped program that nests 4096 local-parent scopes (e.g. a recursive function
        // that does `span.set_local_parent()` at every level).
        let mut guards = Vec::with_capacity(SCOPE_LIMIT);
        for _ in 0..SCOPE_LIMIT {
            guards.push(root_a.set_local_parent());
        }

        {
            // A different trace (optionally unsampled) is made the local parent.
            let root_b = Span::root(
                "B",
                SpanContext::new(TraceId(0xB), SpanId(0)).sampled(b_sampled),
            );
            b_id = SpanContext::from_span(&root_b).unwrap().span_id;
            let _gb = root_b.set_local_parent();

            ctx_seen = SpanContext::current_local_parent();
            {
                let _l = LocalSpan::enter_with_local_parent("local-under-B");
                LocalSpan::add_event(Event::new("event-under-B"));
            }
            let child = Span::enter_with_local_parent("child-under-B");
            ctx_of_child = SpanContext::from_span(&child);
            drop(child);
        }

        // Well scoped: guards are released innermost first.
        while let Some(g) = guards.pop() {
            drop(g);
        }
    }
    fastrace::flush();
    let records = collected.lock().clone();
    (records, a_id, b_id, ctx_seen, ctx_of_child)
}

/// C11 + C02: B is the innermost span set as local parent, yet the context and the records name A.
#[test]
fn local_parent_beyond_scope_limit_is_attributed_to_enclosing_trace() {
    let (records, a_id, b_id, ctx_seen, ctx_of_child) = run(true);

    let mut failures = vec![];

    // C11
    match ctx_seen {
        Some(c) if c.trace_id == TraceId(0xB) && c.span_id == b_id => {}
        other => failures.push(format!(
            "C11: current_local_parent() inside B's scope = {other:?}, expected trace 0xB span {b_id:?} (A is {a_id:?})"
        )),
    }
    match ctx_of_child {
        Some(c) if c.trace_id == TraceId(0xB) => {}
        other => failures.push(format!(
            "C11/C02: context of Span::enter_with_local_parent under B = {other:?}, expected trace 0xB"
        )),
    }

    // C02
    for name in ["local-under-B", "child-under-B"] {
        for r in records.iter().filter(|r| r.name == name) {
            if r.trace_id != TraceId(0xB) || r.parent_id != b_id {
                failures.push(format!(
                    "C02: record {name:?} delivered in trace {:?} under parent {:?}; its parent at creation was B = {b_id:?} in trace 0xB (A = {a_id:?})",
                    r.trace_id, r.parent_id
                ));
            }
        }
    }

    assert!(failures.is_empty(), "\n{}", failures.join("\n"));
}

/// C05: B is an UNSAMPLED trace; its local span, event and child span are nevertheless delivered.
#[test]
fn unsampled_local_parent_beyond_scope_limit_leaks_into_sampled_trace() {
    let (records, _a_id, _b_id, ctx_seen, _) = run(false);

    let leaked: Vec<_> = records
        .iter()
        .filter(|r| r.name.ends_with("-under-B"))
        .map(|r| {
            format!(
                "{} (trace {:?}, parent {:?}, events {:?})",
                r.name,
                r.trace_id,
                r.parent_id,
                r.events.iter().map(|e| e.name.clone()).collect::<Vec<_>>()
            )
        })
        .collect();

    assert!(
        leaked.is_empty(),
        "C05: descendants of the unsampled trace 0xB were delivered: {leaked:#?}\n\
         C05/C11: current_local_parent() inside the unsampled scope = {ctx_seen:?} (expected sampled=false, trace 0xB)"
    );
}
