// Finding: span-id-thread-prefix-collision
//
// Property: C02 (Delivered records reproduce the program's span tree)
// Violated clause: "span ids are non-zero and distinct for distinct spans"
//   (quantified over "spans finished in any order on ANY THREAD").
//
// Cause: fastrace/src/collector/id.rs:11-13 and 84-101.  Every span id (Span, LocalSpan, event,
//   property record) comes from `SpanId::next_id()`, which is
//   `(thread-local random u32 prefix) << 32 | (thread-local u32 counter starting at 1)`.
//   Uniqueness across threads rests on the 32-bit random prefix alone (`rand::random()` at
//   id.rs:12): by the birthday bound two of N id-producing threads share a prefix with
//   probability 1 - exp(-N^2 / 2^33), i.e. 1% at 9 300 threads, 50% at 77 000 threads, ~100% at
//   400 000 threads (counted over the life of the process - thread-per-connection servers,
//   `spawn_blocking` pools that retire idle threads, ...).  Two threads with the same prefix
//   hand out IDENTICAL id sequences (both counters start at 1), so their k-th spans collide.
//
// The test starts 400 000 short-lived threads, lets each draw its first span id exactly the way
// `Span::new` / `SpanQueue::start_span` do, and expects all of them to be distinct.  It is a
// statistical test, but the probability that it passes on the unchanged code is exp(-18.6) < 1e-8.
//
// Run (from /tmp/hunt-B): cp findings/span_id_thread_prefix_collision.rs fastrace/tests/span_id_thread_prefix_collision.rs && cargo test --offline --manifest-path fastrace/Cargo.toml --test span_id_thread_prefix_collision -- --nocapture

use std::collections::HashMap;

use fastrace::prelude::*;

#[test]
fn first_span_ids_of_distinct_threads_are_distinct() {
    const SPAWNERS: usize = 16;
    const PER_SPAWNER: usize = 25_000;

    let handles: Vec<_> = (0..SPAWNERS)
        .map(|_| {
            std::thread::spawn(|| {
                let mut ids = Vec::with_capacity(PER_SPAWNER);
                for _ in 0..PER_SPAWNER {
                    // a brand-new thread: its first span would get exactly this id
                    let id = std::thread::Builder::new()
                        .stack_size(512 * 1024)
                        .spawn(SpanId::next_id)
                        .unwrap()
                        .join()
                        .unwrap();
                    ids.push(id);
                }
                ids
            })
        })
        .collect();

    let mut seen: HashMap<SpanId, usize> = HashMap::new();
    let mut thread_no = 0usize;
    let mut collisions = vec![];
    for h in handles {
        for id in h.join().unwrap() {
            assert_ne!(id.0, 0);
            if let Some(prev) = seen.insert(id, thread_no) {
                collisions.push((id, prev, thread_no));
            }
            thread_no += 1;
        }
    }

    assert!(
        collisions.is_empty(),
        "C02: {} pairs of distinct threads (out of {thread_no}) hand out the same span ids, e.g. {:x?}",
        collisions.len(),
        &collisions[..collisions.len().min(5)]
    );
}
