// SUPPORTING MATERIAL, not a finding: a differential test that PASSES on the unchanged code.
// 3000 random well-scoped single-thread programs (roots sampled/unsampled with remote parent ids
// 0 / top-bit / u64::MAX, contexts through a traceparent round trip, children with 1..3 parents in
// different traces, nested set_local_parent scopes, local spans, Span::enter_with_local_parent,
// LocalCollector + push_child_spans, spans dropped in any order, guards outliving their span,
// flush() at random points) are checked against a model of C02 / C05 / C11, in the default
// configuration and (HUNT_CANCELABLE=1) in the cancelable one.  No discrepancy was found, i.e.
// inside the limits and on one thread the three properties hold.
// Run (from /tmp/hunt-B): cp findings/support_differential_fuzz.rs fastrace/tests/support_differential_fuzz.rs && cargo test --offline --manifest-path fastrace/Cargo.toml --test support_differential_fuzz -- --nocapture
use std::collections::HashMap;
use std::time::Duration;

use fastrace::collector::Config;
use fastrace::collector::TestReporter;
use fastrace::local::LocalCollector;
use fastrace::local::LocalSpans;
use fastrace::local::LocalParentGuard;
use fastrace::prelude::*;

struct Rng(u64);
impl Rng {
    fn next(&mut self) -> u64 {
        self.0 ^= self.0 << 13;
        self.0 ^= self.0 >> 7;
        self.0 ^= self.0 << 17;
        self.0
    }
    fn below(&mut self, n: usize) -> usize {
        (self.next() % n as u64) as usize
    }
}

#[derive(Clone, Debug)]
struct Ctx {
    trace: u128,
    sampled: bool,
    parent: String, // name of parent, or "remote:<id>"
}

struct MSpan {
    name: String,
    span: Option<Span>,
    ctxs: Vec<Ctx>,
}

enum Scope {
    Guard(#[allow(dead_code)] LocalParentGuard, usize), // index of span
    Local(#[allow(dead_code)] LocalSpan, String, Vec<Ctx>),
    Collector(Option<LocalCollector>, Vec<(String, Option<String>)>), // recorded locals: (name, parent-in-set)
    CLocal(#[allow(dead_code)] LocalSpan, String),
}

fn run(
    seed: u64,
    cancelable: bool,
    collected: &std::sync::Arc<parking_lot::Mutex<Vec<SpanRecord>>>,
) -> Vec<String> {
    let mut rng = Rng(seed.wrapping_mul(0x9E3779B97F4A7C15) | 1);
    fastrace::flush();
    collected.lock().clear();

    let mut spans: Vec<MSpan> = vec![];
    let mut scopes: Vec<Scope> = vec![];
    let mut expected: Vec<(String, u128, String)> = vec![];
    let mut ctx_checks: Vec<(String, SpanContext, String, u128, bool)> = vec![]; // what, observed, expected name, trace, sampled
    let mut errors: Vec<String> = vec![];
    let mut counter = 0usize;
    let mut collected_sets: Vec<(LocalSpans, Vec<(String, Option<String>)>)> = vec![];
    let mut name = |p: &str| {
        counter += 1;
        format!("{p}{counter}")
    };

    // innermost local parent according to the model: (name, ctxs) or None
    fn local_parent(scopes: &[Scope], spans: &[MSpan]) -> Option<(String, Vec<Ctx>)> {
        match scopes.last()? {
            Scope::Guard(_, i) => Some((spans[*i].name.clone(), spans[*i].ctxs.clone())),
            Scope::Local(_, n, c) => Some((n.clone(), c.clone())),
            Scope::Collector(..) | Scope::CLocal(..) => None,
        }
    }

    let steps = 60 + rng.below(60);
    for _ in 0..steps {
        match rng.below(12) {
            0 => {
                // root
                let n = name("r");
                let trace = 1 + rng.below(5) as u128 * 1000 + spans.len() as u128 * 10;
                let remote = [0u64, 0x8000_0000_0000_0001, u64::MAX][rng.below(3)];
                let sampled = rng.below(3) != 0;
                let ctx = SpanContext::new(TraceId(trace), SpanId(remote)).sampled(sampled);
                let ctx = if rng.below(2) == 0 {
                    SpanContext::decode_w3c_traceparent(&ctx.encode_w3c_traceparent()).unwrap()
                } else {
                    ctx
                };
                let span = Span::root(n.clone(), ctx);
                spans.push(MSpan {
                    name: n,
                    span: Some(span),
                    ctxs: vec![Ctx {
                        trace,
                        sampled,
                        parent: format!("remote:{remote}"),
                    }],
                });
            }
            1 | 2 => {
                // child with 1..3 parents in different traces
                let live: Vec<usize> = (0..spans.len()).filter(|i| spans[*i].span.is_some()).collect();
                if live.is_empty() {
                    continue;
                }
                let k = 1 + rng.below(3);
                let mut chosen: Vec<usize> = vec![];
                let mut traces: Vec<u128> = vec![];
                for _ in 0..k {
                    let c = live[rng.below(live.len())];
                    if spans[c].ctxs.iter().any(|x| traces.contains(&x.trace)) {
                        continue;
                    }
                    traces.extend(spans[c].ctxs.iter().map(|x| x.trace));
                    chosen.push(c);
                }
                if chosen.is_empty() {
                    continue;
                }
                let n = name("s");
                let span = if chosen.len() == 1 && rng.below(2) == 0 {
                    Span::enter_with_parent(n.clone(), spans[chosen[0]].span.as_ref().unwrap())
                } else {
                    Span::enter_with_parents(
                        n.clone(),
                        chosen.iter().map(|c| spans[*c].span.as_ref().unwrap()),
                    )
                };
                let mut ctxs = vec![];
                for c in &chosen {
                    for x in &spans[*c].ctxs {
                        ctxs.push(Ctx {
                            trace: x.trace,
                            sampled: x.sampled,
                            parent: spans[*c].name.clone(),
                        });
                    }
                }
                spans.push(MSpan {
                    name: n,
                    span: Some(span),
                    ctxs,
                });
            }
            3 => {
                // set local parent
                let live: Vec<usize> = (0..spans.len()).filter(|i| spans[*i].span.is_some()).collect();
                if live.is_empty() || scopes.len() > 30 {
                    continue;
                }
                let c = live[rng.below(live.len())];
                let g = spans[c].span.as_ref().unwrap().set_local_parent();
                scopes.push(Scope::Guard(g, c));
            }
            4 | 5 => {
                // local span
                if scopes.len() > 30 {
                    continue;
                }
                let n = name("l");
                match scopes.last() {
                    Some(Scope::Collector(..)) | Some(Scope::CLocal(..)) => {
                        let l = LocalSpan::enter_with_local_parent(n.clone());
                        // record in the nearest collector
                        let parent_in_set = match scopes.last() {
                            Some(Scope::CLocal(_, p)) => Some(p.clone()),
                            _ => None,
                        };
                        for s in scopes.iter_mut().rev() {
                            if let Scope::Collector(_, rec) = s {
                                rec.push((n.clone(), parent_in_set.clone()));
                                break;
                            }
                        }
                        scopes.push(Scope::CLocal(l, n));
                    }
                    _ => {
                        let lp = local_parent(&scopes, &spans);
                        let l = LocalSpan::enter_with_local_parent(n.clone());
                        if let Some((pn, pc)) = lp {
                            let ctxs: Vec<Ctx> = pc
                                .iter()
                                .map(|x| Ctx {
                                    trace: x.trace,
                                    sampled: x.sampled,
                                    parent: pn.clone(),
                                })
                                .collect();
                            if ctxs.iter().any(|c| c.sampled) {
                                for c in ctxs.iter().filter(|c| c.sampled) {
                                    expected.push((n.clone(), c.trace, c.parent.clone()));
                                }
                                scopes.push(Scope::Local(l, n, ctxs));
                            } else {
                                // unsampled: not recorded; keep it as an anonymous scope that does
                                // not change the local parent: model it by not pushing.
                                // (LocalSpan must still be dropped LIFO; it is a no-op anyway.)
                                drop(l);
                            }
                        } else {
                            drop(l);
                        }
                    }
                }
            }
            6 => {
                // Span::enter_with_local_parent
                let lp = local_parent(&scopes, &spans);
                let n = name("e");
                let span = Span::enter_with_local_parent(n.clone());
                match lp {
                    Some((pn, pc)) => {
                        let ctxs: Vec<Ctx> = pc
                            .iter()
                            .map(|x| Ctx {
                                trace: x.trace,
                                sampled: x.sampled,
                                parent: pn.clone(),
                            })
                            .collect();
                        spans.push(MSpan {
                            name: n,
                            span: Some(span),
                            ctxs,
                        });
                    }
                    None => {
                        if SpanContext::from_span(&span).is_some() {
                            errors.push(format!("{n}: expected no-op span (no local parent)"));
                        }
                    }
                }
            }
            7 => {
                // pop a scope
                match scopes.pop() {
                    Some(Scope::Collector(c, rec)) => {
                        let ls = c.unwrap().collect();
                        collected_sets.push((ls, rec));
                    }
                    _ => {}
                }
            }
            8 => {
                // drop a random span (not one that is... any; guards may outlive spans)
                let live: Vec<usize> = (0..spans.len()).filter(|i| spans[*i].span.is_some()).collect();
                if live.is_empty() {
                    continue;
                }
                let c = live[rng.below(live.len())];
                if cancelable && spans[c].name.starts_with('r') {
                    continue; // keep roots to the end in cancelable mode
                }
                spans[c].span.take();
            }
            9 => {
                fastrace::flush();
            }
            10 => {
                // check contexts
                let lp = local_parent(&scopes, &spans);
                let got = SpanContext::current_local_parent();
                match (lp, got) {
                    (None, None) => {}
                    (None, Some(g)) => {
                        if !matches!(scopes.last(), Some(Scope::Collector(..)) | Some(Scope::CLocal(..))) {
                            errors.push(format!("current_local_parent = {g:?}, expected None"))
                        }
                    }
                    (Some((pn, pc)), None) => {
                        errors.push(format!("current_local_parent = None, expected {pn} {pc:?}"))
                    }
                    (Some((pn, pc)), Some(g)) => {
                        ctx_checks.push(("clp".into(), g, pn, pc[0].trace, pc[0].sampled));
                    }
                }
                let live: Vec<usize> = (0..spans.len()).filter(|i| spans[*i].span.is_some()).collect();
                if !live.is_empty() {
                    let c = live[rng.below(live.len())];
                    let got = SpanContext::from_span(spans[c].span.as_ref().unwrap());
                    match got {
                        None => errors.push(format!("from_span({}) = None", spans[c].name)),
                        Some(g) => {
                            ctx_checks.push((
                                "from_span".into(),
                                g,
                                spans[c].name.clone(),
                                spans[c].ctxs[0].trace,
                                spans[c].ctxs[0].sampled,
                            ));
                            // root from the context
                            if rng.below(2) == 0 {
                                let n = name("x");
                                let g2 = SpanContext::decode_w3c_traceparent(&g.encode_w3c_traceparent()).unwrap();
                                let _r = Span::root(n.clone(), g2);
                                if g.sampled {
                                    expected.push((n, spans[c].ctxs[0].trace, spans[c].name.clone()));
                                }
                            }
                        }
                    }
                }
            }
            _ => {
                // start a collector, or push a collected set
                if rng.below(2) == 0 && scopes.len() < 30 {
                    scopes.push(Scope::Collector(Some(LocalCollector::start()), vec![]));
                } else if !collected_sets.is_empty() {
                    let live: Vec<usize> = (0..spans.len()).filter(|i| spans[*i].span.is_some()).collect();
                    if live.is_empty() {
                        continue;
                    }
                    let c = live[rng.below(live.len())];
                    let (ls, rec) = collected_sets.remove(rng.below(collected_sets.len()));
                    spans[c].span.as_ref().unwrap().push_child_spans(ls);
                    for (n, p) in rec {
                        for x in spans[c].ctxs.iter().filter(|x| x.sampled) {
                            expected.push((
                                n.clone(),
                                x.trace,
                                p.clone().unwrap_or_else(|| spans[c].name.clone()),
                            ));
                        }
                    }
                }
            }
        }
    }

    // unwind
    while let Some(s) = scopes.pop() {
        drop(s);
    }
    // expected records for spans
    for s in &spans {
        for c in s.ctxs.iter().filter(|c| c.sampled) {
            expected.push((s.name.clone(), c.trace, c.parent.clone()));
        }
    }
    // drop non-roots first then roots
    for s in spans.iter_mut() {
        if !s.name.starts_with('r') {
            s.span.take();
        }
    }
    for s in spans.iter_mut() {
        s.span.take();
    }
    fastrace::flush();
    fastrace::flush();

    let records = collected.lock().clone();
    if seed % 500 == 0 { println!("seed {seed}: {} records, {} expected, {} ctx checks", records.len(), expected.len(), ctx_checks.len()); }
    let mut id2name: HashMap<u64, String> = HashMap::new();
    for r in &records {
        if let Some(prev) = id2name.insert(r.span_id.0, r.name.to_string()) {
            if prev != r.name {
                errors.push(format!("id {} used by {} and {}", r.span_id.0, prev, r.name));
            }
        }
        if r.span_id.0 == 0 {
            errors.push(format!("zero id for {}", r.name));
        }
    }
    let mut got: Vec<(String, u128, String)> = records
        .iter()
        .map(|r| {
            let p = id2name
                .get(&r.parent_id.0)
                .cloned()
                .unwrap_or_else(|| format!("remote:{}", r.parent_id.0));
            (r.name.to_string(), r.trace_id.0, p)
        })
        .collect();
    got.sort();
    if cancelable {
        // spans finishing after their root / in traces never committed may be lost: only check
        // that everything delivered was expected
        let mut exp = expected.clone();
        for g in &got {
            if let Some(pos) = exp.iter().position(|e| e == g) {
                exp.remove(pos);
            } else {
                errors.push(format!("unexpected record {g:?}"));
            }
        }
    } else {
        expected.sort();
        if got != expected {
            for g in &got {
                if !expected.contains(g) {
                    errors.push(format!("unexpected record {g:?}"));
                }
            }
            for e in &expected {
                if !got.contains(e) {
                    errors.push(format!("missing record {e:?}"));
                }
            }
            if got.len() != expected.len() {
                errors.push(format!("count {} vs expected {}", got.len(), expected.len()));
            }
        }
    }
    for (what, g, en, et, es) in ctx_checks {
        if g.trace_id.0 != et || g.sampled != es {
            errors.push(format!("{what}: got {g:?}, expected {en} trace {et} sampled {es}"));
        }
        match id2name.get(&g.span_id.0) {
            Some(n) if *n == en => {}
            Some(n) => errors.push(format!("{what}: got span {n}, expected {en}")),
            None => {} // never delivered (unsampled or lost): cannot resolve
        }
    }
    errors
}

#[test]
fn fuzz() {
    let mut bad = 0;
    let cancelable = std::env::var("HUNT_CANCELABLE").is_ok();
    let (reporter, collected) = TestReporter::new();
    fastrace::set_reporter(
        reporter,
        Config::default()
            .report_interval(Duration::from_secs(3600))
            .cancelable(cancelable),
    );
    for seed in 1..=3000u64 {
        {
            let errs = run(seed, cancelable, &collected);
            if !errs.is_empty() {
                bad += 1;
                if bad <= 5 {
                    println!("seed {seed} cancelable {cancelable}:");
                    for e in errs.iter().take(10) {
                        println!("   {e}");
                    }
                }
            }
        }
    }
    assert_eq!(bad, 0);
}
