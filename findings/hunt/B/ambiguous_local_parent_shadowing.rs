// AMBIGUOUS candidates (NOT counted as confirmed findings): behaviour that contradicts a literal
// reading of C11 / C02 but looks intentional in the source (an upstream unit test,
// local_span_stack.rs `current_collect_token`, asserts the first one).
//
// Properties: C11 ("current_local_parent() [returns] those of the innermost local parent (the
//   open local span if there is one, otherwise the span set as local parent)"; None only "when no
//   local parent is in scope"), C02 ("parent id is ... the span set as local parent").
//
// (a) LocalCollector::start() inside a local-parent scope pushes a scope without token
//     (fastrace/src/local/local_collector.rs:102-113, local_span_line.rs:105-121): until the
//     collector is collected/dropped, current_local_parent() is None and
//     Span::enter_with_local_parent() returns a no-op span although a span IS set as local parent.
// (b) Span::noop().set_local_parent() registers no scope at all (span.rs:498-506), whereas a span
//     that belongs to no trace because it was created from only no-op parents registers a
//     non-recording scope (span.rs:164-169, 526-531).  Under the former, local spans and contexts
//     silently fall through to the ENCLOSING local parent; under the latter they are suppressed.
//
// Run (from /tmp/hunt-B): cp findings/ambiguous_local_parent_shadowing.rs fastrace/tests/ambiguous_local_parent_shadowing.rs && cargo test --offline --manifest-path fastrace/Cargo.toml --test ambiguous_local_parent_shadowing -- --test-threads=1

use std::time::Duration;

use fastrace::collector::Config;
use fastrace::collector::TestReporter;
use fastrace::local::LocalCollector;
use fastrace::prelude::*;

fn setup() -> std::sync::Arc<parking_lot::Mutex<Vec<SpanRecord>>> {
    let (reporter, collected) = TestReporter::new();
    fastrace::set_reporter(
        reporter,
        Config::default().report_interval(Duration::from_secs(3600)),
    );
    collected
}

#[test]
fn a_collector_shadows_local_parent() {
    let _collected = setup();
    let root = Span::root("root", SpanContext::new(TraceId(2), SpanId(0)));
    let _g = root.set_local_parent();
    assert!(SpanContext::current_local_parent().is_some());

    let c = LocalCollector::start();
    let ctx = SpanContext::current_local_parent();
    let child = Span::enter_with_local_parent("child");
    let child_ctx = SpanContext::from_span(&child);
    drop(child);
    drop(c);

    assert!(
        ctx.is_some() && child_ctx.is_some(),
        "root is set as local parent, yet under LocalCollector::start(): current_local_parent() = {ctx:?}, \
         Span::enter_with_local_parent() -> context {child_ctx:?}"
    );
}

#[test]
fn b_noop_local_parent_falls_through_to_enclosing_scope() {
    let collected = setup();
    let ctx_under_noop;
    let ctx_under_empty;
    let root_id;
    {
        let root = Span::root("root", SpanContext::new(TraceId(3), SpanId(0)));
        root_id = SpanContext::from_span(&root).unwrap().span_id;
        let _g = root.set_local_parent();
        {
            let n = Span::noop();
            let _g2 = n.set_local_parent();
            ctx_under_noop = SpanContext::current_local_parent();
            let _l = LocalSpan::enter_with_local_parent("under-noop");
        }
        {
            let e = Span::enter_with_parents("e", [&Span::noop()]);
            let _g2 = e.set_local_parent();
            ctx_under_empty = SpanContext::current_local_parent();
            let _l = LocalSpan::enter_with_local_parent("under-empty");
        }
    }
    fastrace::flush();
    let records = collected.lock().clone();
    let names: Vec<_> = records
        .iter()
        .filter(|r| r.trace_id == TraceId(3))
        .map(|r| (r.name.to_string(), r.parent_id == root_id))
        .collect();
    assert!(
        ctx_under_noop.is_none() && !names.iter().any(|(n, _)| n == "under-noop"),
        "innermost span set as local parent is a no-op span, yet current_local_parent() = {ctx_under_noop:?} \
         (under the empty-token span: {ctx_under_empty:?}); delivered (name, parent==root): {names:?}"
    );
}
