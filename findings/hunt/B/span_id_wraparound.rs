// Finding: span-id-wraparound
//
// Property: C02 (Delivered records reproduce the program's span tree)
// Violated clause: "span ids are non-zero and distinct for distinct spans" (and, as a consequence,
//   "every other record's parent id is the id of the span that was its parent at creation" stops
//   identifying a unique span: the child below is delivered as its own parent).
//
// Cause: fastrace/src/collector/id.rs:84-101 (`SpanId::next_id`).  A span id is
//   `(per-thread random u32 prefix) << 32 | (per-thread u32 counter)`.  The counter is advanced
//   with `wrapping_add(1)` (id.rs:89) and only the value 0 is skipped (id.rs:90-94), so after
//   2^32 - 1 ids the same thread hands out exactly the same ids again, in the same order.  Every
//   `Span`, `LocalSpan`, event (`add_event`) and property record (`add_property/-ies`) consumes
//   one id, so a thread that produces 50 000 of those per second wraps after one day.  Any span
//   that is still open then (a long-lived root/"server" span, a connection span, ...) gets a
//   second, distinct span with the SAME id in the SAME trace.
//
// The test keeps a root open, burns 2^32 - 2 ids on the same thread (`SpanId::next_id()` is a
// public, `#[doc(hidden)]` function; creating that many spans has the same effect) and then
// creates a child of the root: the child is delivered with span_id == root.span_id and therefore
// parent_id == its own span_id.
//
// Takes ~1-3 minutes in a debug build (4.3e9 calls of next_id).
// Run (from /tmp/hunt-B): cp findings/span_id_wraparound.rs fastrace/tests/span_id_wraparound.rs && cargo test --offline --manifest-path fastrace/Cargo.toml --test span_id_wraparound -- --nocapture

use std::time::Duration;

use fastrace::collector::Config;
use fastrace::collector::TestReporter;
use fastrace::prelude::*;

#[test]
fn span_ids_repeat_after_u32_wraparound() {
    let (reporter, collected) = TestReporter::new();
    fastrace::set_reporter(
        reporter,
        Config::default().report_interval(Duration::from_secs(3600)),
    );

    {
        let root = Span::root("root", SpanContext::new(TraceId(7), SpanId(0)));

        // ids handed out on this thread between the creation of `root` and of `child`
        let burn: u64 = (1u64 << 32) - 2;
        let mut acc = 0u64;
        for _ in 0..burn {
            acc ^= SpanId::next_id().0;
        }
        std::hint::black_box(acc);

        let child = Span::enter_with_parent("child", &root);
        drop(child);
    }
    fastrace::flush();

    let records = collected.lock().clone();
    assert_eq!(records.len(), 2, "{records:#?}");
    let root = records.iter().find(|r| r.name == "root").unwrap();
    let child = records.iter().find(|r| r.name == "child").unwrap();

    assert_eq!(child.parent_id, root.span_id); // holds
    assert_ne!(
        child.span_id, root.span_id,
        "C02: two distinct spans of trace {:?} were delivered with the same span id {:?}; \
         the child record is its own parent (span_id == parent_id == {:?})",
        child.trace_id, child.span_id, child.parent_id
    );
}
