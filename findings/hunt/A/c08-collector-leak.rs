// FINDING c08-collector-leak  (Property C08) -- in-crate view of parked-commit and tls-drop
//
// Violated clause: "After a trace's root has finished or been cancelled and a collector cycle has
// run, the collector retains nothing for that trace; after a thread has exited and its queued
// commands have been consumed, nothing is retained for that thread."
//
// Cause: GlobalCollector::active_collectors (fastrace/src/collector/global_collector.rs:206) only
// loses an entry when a CommitCollect (or, cancelable, DropCollect) arrives (lines 302-307,
// 359-368).  The CommitCollect of a finished root never arrives when
//  (1) it was parked because the ring was full and the thread exits before the ring is drained:
//      Sender::drop discards it (fastrace/src/util/spsc.rs:63-69); or the thread simply stays idle;
//  (2) the root is finished by a thread-local destructor after COMMAND_SENDER was destroyed:
//      force_send_command's try_with(..).ok() discards it (global_collector.rs:60-64).
// Each such trace leaves one ActiveCollector (and, in cancelable mode, all its spans) behind for
// the life of the process, in the default configuration too.
//
// This is an in-crate test (active_collectors is private).  The in-crate Span API is wired to a
// mock collector under cfg(test), so `Root` below reproduces Span::root / Span::drop against the
// real GlobalCollect.  Append this file to fastrace/src/collector/global_collector.rs and run,
// one test at a time:
//   cargo test --offline --manifest-path fastrace/Cargo.toml --lib hunt_c08::c08_commit_parked
//   cargo test --offline --manifest-path fastrace/Cargo.toml --lib hunt_c08::c08_root_finished

#[cfg(test)]
mod hunt_c08 {
    use std::cell::RefCell;
    use std::time::Duration;

    use super::*;
    use crate::collector::CollectTokenItem;
    use crate::collector::TestReporter;
    use crate::local::raw_span::RawKind;
    use crate::local::raw_span::RawSpan;

    fn retained() -> usize {
        GLOBAL_COLLECTOR
            .lock()
            .as_ref()
            .unwrap()
            .active_collectors
            .len()
    }

    fn a_span(collect_id: usize) -> (SpanSet, CollectToken) {
        let raw = RawSpan::begin_with(
            SpanId(7),
            SpanId::default(),
            Instant::now(),
            "x",
            RawKind::Span,
        );
        let token = CollectTokenItem {
            trace_id: TraceId(1),
            parent_id: SpanId::default(),
            collect_id,
            is_root: true,
            is_sampled: true,
        };
        (SpanSet::Span(raw), token.into())
    }

    // What Span::root / Span::drop do, written against the real (non-mock) GlobalCollect.
    struct Root(usize);
    impl Root {
        fn new() -> Root {
            Root(GlobalCollect.start_collect())
        }
    }
    impl Drop for Root {
        fn drop(&mut self) {
            let (spans, token) = a_span(self.0);
            GlobalCollect.submit_spans(spans, token);
            GlobalCollect.commit_collect(self.0);
        }
    }

    fn start(cancelable: bool) {
        let (reporter, _) = TestReporter::new();
        set_reporter(
            reporter,
            Config::default()
                .cancelable(cancelable)
                .report_interval(Duration::from_secs(3600)),
        );
        std::thread::sleep(Duration::from_millis(300));
        flush();
        assert_eq!(retained(), 0);
    }

    #[test]
    fn c08_commit_parked_then_discarded_at_thread_exit() {
        start(false);
        std::thread::spawn(|| {
            let root = Root::new();
            for _ in 0..10240 {
                let (spans, token) = a_span(root.0);
                GlobalCollect.submit_spans(spans, token);
            }
            drop(root); // queue full: CommitCollect is parked in Sender::pending_messages
        })
        .join()
        .unwrap(); // Sender::drop: ring still full, the parked CommitCollect is thrown away
        flush();
        flush();
        assert_eq!(retained(), 0, "trace finished, thread gone, two cycles ran");
    }

    thread_local! {
        static SLOT: RefCell<Option<Root>> = RefCell::new(None);
    }

    #[test]
    fn c08_root_finished_by_thread_local_destructor() {
        start(false);
        std::thread::spawn(|| {
            SLOT.with(|s| assert!(s.borrow().is_none())); // registered before COMMAND_SENDER
            let root = Root::new();
            SLOT.with(|s| *s.borrow_mut() = Some(root));
        })
        .join()
        .unwrap();
        flush();
        flush();
        assert_eq!(retained(), 0, "trace finished, thread gone, two cycles ran");
    }
}
