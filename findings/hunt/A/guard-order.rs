// FINDING guard-order  (Property C01)
//
// Violated clause: "every span recorded in a sampled trace is handed to the reporter exactly once
// (... a local span once the local-parent scope it was recorded in ends) ... in whatever order
// spans finish".  Only queue-full / per-scope-limit omissions are permitted; none is involved.
//
// Cause: LocalSpanStack::unregister_and_collect (fastrace/src/local/local_span_stack.rs:85-95)
// pops the TOP span line whatever handle it is given, and SpanLine::collect
// (fastrace/src/local/local_span_line.rs:124-127) answers None when the popped line's epoch is not
// the handle's, which throws the popped line's spans away.  LocalParentGuard::drop
// (fastrace/src/span.rs:611-622) / LocalCollector::collect_spans_and_token
// (fastrace/src/local/local_collector.rs:150-172) turn that None into "nothing to submit".
// So when two local-parent guards (or a guard and a LocalCollector) end in non-LIFO order, the
// first drop destroys the OTHER scope's spans and the second drop destroys the first scope's:
// the local spans of both scopes are silently lost.  With debug assertions the same call
// panics inside Drop instead (local_span_stack.rs:89, debug_assert_eq!/unwrap).
// Nothing in the API or docs asks for LIFO order; the guards are plain values.  The second test
// reaches the state with no explicit drop(): FutureExt::in_span drops its own guard at every
// Poll::Pending (fastrace/src/future.rs:123-136), i.e. before any guard the wrapped future holds
// across the .await.
//
// Run (place this file at fastrace/tests/hunt_guard_order.rs):
//   debug build, panics in Drop:
//     cargo test --offline --manifest-path fastrace/Cargo.toml --test hunt_guard_order
//   release semantics (no debug assertions), silent loss:
//     cargo test --offline --manifest-path fastrace/Cargo.toml \
//       --config 'profile.test.package."fastrace@0.7.9".debug-assertions=false' \
//       --config 'profile.dev.package."fastrace@0.7.9".debug-assertions=false' \
//       --test hunt_guard_order
//   (run the two tests one at a time by name: every test calls set_reporter)

use std::time::Duration;

use fastrace::collector::Config;
use fastrace::collector::TestReporter;
use fastrace::prelude::*;

#[test]
fn local_parent_guards_dropped_out_of_order() {
    let (reporter, collected) = TestReporter::new();
    fastrace::set_reporter(
        reporter,
        Config::default().report_interval(Duration::from_secs(3600)),
    );
    std::thread::sleep(Duration::from_millis(300));

    let result = std::panic::catch_unwind(|| {
        let root = Span::root("root", SpanContext::random());
        let child = Span::enter_with_parent("child", &root);

        let g1 = root.set_local_parent();
        {
            let _a = LocalSpan::enter_with_local_parent("a-under-root");
        }
        let g2 = child.set_local_parent();
        {
            let _b = LocalSpan::enter_with_local_parent("b-under-child");
        }
        // Both guards are plain values; nothing in the API forces LIFO order.
        drop(g1);
        drop(g2);
        drop(child);
        drop(root);
    });

    fastrace::flush();
    let mut names: Vec<String> = collected.lock().iter().map(|s| s.name.to_string()).collect();
    names.sort();
    assert!(result.is_ok(), "dropping the guards panicked");
    assert_eq!(names, ["a-under-root", "b-under-child", "child", "root"]);
}

struct YieldOnce(bool);
impl std::future::Future for YieldOnce {
    type Output = ();
    fn poll(
        mut self: std::pin::Pin<&mut Self>,
        cx: &mut std::task::Context<'_>,
    ) -> std::task::Poll<()> {
        if self.0 {
            std::task::Poll::Ready(())
        } else {
            self.0 = true;
            cx.waker().wake_by_ref();
            std::task::Poll::Pending
        }
    }
}

// The same defect reached without an explicit drop(): a guard held across an .await inside a
// future wrapped by in_span(). InSpan drops its own guard at every Pending, i.e. before the
// guard the future still holds.
#[test]
fn guard_held_across_await_inside_in_span() {
    let (reporter, collected) = TestReporter::new();
    fastrace::set_reporter(
        reporter,
        Config::default().report_interval(Duration::from_secs(3600)),
    );
    std::thread::sleep(Duration::from_millis(300));

    let result = std::panic::catch_unwind(|| {
        let root = Span::root("root", SpanContext::random());
        let task = async {
            {
                let _l = LocalSpan::enter_with_local_parent("task-before");
            }
            let step = Span::enter_with_local_parent("step");
            let _g = step.set_local_parent();
            {
                let _l = LocalSpan::enter_with_local_parent("step-before-await");
            }
            YieldOnce(false).await;
            {
                let _l = LocalSpan::enter_with_local_parent("step-after-await");
            }
        }
        .in_span(root);
        pollster::block_on(task);
    });

    fastrace::flush();
    let mut names: Vec<String> = collected.lock().iter().map(|s| s.name.to_string()).collect();
    names.sort();
    assert!(result.is_ok(), "polling the future panicked; delivered: {names:?}");
    assert_eq!(
        names,
        ["root", "step", "step-after-await", "step-before-await", "task-before"]
    );
}
