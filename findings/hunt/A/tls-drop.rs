// FINDING tls-drop  (Property C01; the C08 side is in c08-collector-leak.rs)
//
// Violated clause (C01): "every span recorded in a sampled trace is handed to the reporter exactly
// once (a thread-safe span once it finishes ...) ... whether or not the finishing thread exits
// immediately afterwards".  (C08: nothing retained after the root finished.)
//
// Cause: send_command / force_send_command (fastrace/src/collector/global_collector.rs:54-64) use
// COMMAND_SENDER.try_with(..).ok().  Once the thread-local COMMAND_SENDER has been destroyed during
// thread exit, try_with answers AccessError and the command (SubmitSpans and CommitCollect from
// Span::drop, fastrace/src/span.rs:565-580) is silently discarded.  Thread-local destructors run
// in reverse order of first use, so any Span / LocalParentGuard kept in an application
// thread-local that was first touched BEFORE the thread's first fastrace call (the usual
// "per-worker context initialised at thread start") is finished after COMMAND_SENDER is gone:
// the span is never delivered and, for a root, the collector keeps the trace's entry forever.
// The control test (slot first touched after the first fastrace call) passes.
//
// Run (place this file at fastrace/tests/hunt_tls_drop.rs), one test at a time:
//   cargo test --offline --manifest-path fastrace/Cargo.toml --test hunt_tls_drop span_finished_by_thread_exit
//   cargo test --offline --manifest-path fastrace/Cargo.toml --test hunt_tls_drop control_slot

use std::cell::RefCell;
use std::time::Duration;

use fastrace::collector::Config;
use fastrace::collector::TestReporter;
use fastrace::prelude::*;

thread_local! {
    // A per-thread slot an application keeps its "current request" span in.
    static CURRENT: RefCell<Option<Span>> = RefCell::new(None);
}

#[test]
fn span_finished_by_thread_exit() {
    let (reporter, collected) = TestReporter::new();
    fastrace::set_reporter(
        reporter,
        Config::default().report_interval(Duration::from_secs(3600)),
    );
    std::thread::sleep(Duration::from_millis(300));

    std::thread::spawn(|| {
        // The slot is touched before this thread's first fastrace call.
        CURRENT.with(|c| assert!(c.borrow().is_none()));
        let root = Span::root("root", SpanContext::random());
        drop(Span::enter_with_parent("child", &root));
        CURRENT.with(|c| *c.borrow_mut() = Some(root));
        // The thread exits: the slot's destructor finishes the root span.
    })
    .join()
    .unwrap();

    fastrace::flush();
    let mut names: Vec<String> = collected.lock().iter().map(|s| s.name.to_string()).collect();
    names.sort();
    assert_eq!(names, ["child", "root"]);
}

// Control: identical, except that the slot is first touched after the thread's first fastrace
// call, so it is destroyed before fastrace's own thread-local sender. This one passes.
#[test]
fn control_slot_registered_after_first_fastrace_call() {
    let (reporter, collected) = TestReporter::new();
    fastrace::set_reporter(
        reporter,
        Config::default().report_interval(Duration::from_secs(3600)),
    );
    std::thread::sleep(Duration::from_millis(300));

    std::thread::spawn(|| {
        let root = Span::root("root", SpanContext::random());
        drop(Span::enter_with_parent("child", &root));
        CURRENT.with(|c| *c.borrow_mut() = Some(root));
    })
    .join()
    .unwrap();

    fastrace::flush();
    let mut names: Vec<String> = collected.lock().iter().map(|s| s.name.to_string()).collect();
    names.sort();
    assert_eq!(names, ["child", "root"]);
}
