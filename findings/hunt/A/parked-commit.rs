// FINDING parked-commit  (Property C03; the C08 side is in c08-collector-leak.rs)
//
// Violated clause (C03): "When the root finishes without having been cancelled, the root and every
// span of the trace that finished before it on any thread ... are delivered together in a single
// report call".  (C08: "After a trace's root has finished ... and a collector cycle has run, the
// collector retains nothing for that trace".)
//
// Cause: when the finishing thread's command ring is full, Span::drop's CommitCollect
// (fastrace/src/span.rs:576-578 -> global_collector.rs:136-138 -> force_send) is parked in the
// thread-local Sender::pending_messages (fastrace/src/util/spsc.rs:48-60).  Parked commands are
// only retried by the NEXT send/force_send of the same thread (spsc.rs:37-46).  Neither a
// collector cycle nor flush() (global_collector.rs:89-115) looks at them.  Hence
//  (a) if the thread makes no further fastrace call (an idle pool worker), the commit never
//      reaches the collector however many cycles run: in cancelable mode the whole trace,
//      including spans submitted while the queue had room, is withheld indefinitely;
//  (b) if the thread exits before the collector drained its ring, Sender::drop
//      (spsc.rs:63-69) pushes once more and DISCARDS the commit on failure: the trace is
//      never delivered and its ActiveCollector entry is never removed.
// The only span whose loss C01/C09 permit here is the root's own record (submitted while the
// queue was full).  The child was submitted while the queue had room.
// Distinct from the known "cancel() parked and overtaken" item: no cancel, no second thread.
//
// Run (place this file at fastrace/tests/hunt_parked_commit.rs), one test at a time:
//   cargo test --offline --manifest-path fastrace/Cargo.toml --test hunt_parked_commit commit_parked_on_idle_thread
//   cargo test --offline --manifest-path fastrace/Cargo.toml --test hunt_parked_commit commit_discarded_at_thread_exit

use std::sync::mpsc;
use std::time::Duration;

use fastrace::collector::Config;
use fastrace::collector::TestReporter;
use fastrace::prelude::*;

const QUEUE: usize = 10240;

fn names(collected: &std::sync::Arc<parking_lot::Mutex<Vec<SpanRecord>>>) -> Vec<String> {
    let mut v: Vec<String> = collected.lock().iter().map(|s| s.name.to_string()).collect();
    v.sort();
    v
}

// The worker finishes a child (queue has room), then floods its own queue, then finishes the
// root. `exit_while_full` decides whether the worker exits before or after the collector drained
// its queue.
fn scenario(exit_while_full: bool) -> (Vec<String>, Vec<String>) {
    let (reporter, collected) = TestReporter::new();
    fastrace::set_reporter(
        reporter,
        Config::default()
            .cancelable(true)
            .report_interval(Duration::from_secs(3600)),
    );
    std::thread::sleep(Duration::from_millis(300));

    let (done_tx, done_rx) = mpsc::channel::<()>();
    let (exit_tx, exit_rx) = mpsc::channel::<()>();
    let worker = std::thread::spawn(move || {
        let root = Span::root("root", SpanContext::random());
        drop(Span::enter_with_parent("child", &root)); // submitted while the queue has room
        for _ in 0..QUEUE {
            root.add_event(Event::new("filler")); // fills the queue; the surplus is dropped
        }
        drop(root); // root finishes, not cancelled
        done_tx.send(()).unwrap();
        exit_rx.recv().unwrap(); // idle, no further fastrace call
    });
    done_rx.recv().unwrap();

    if exit_while_full {
        exit_tx.send(()).unwrap();
        worker.join().unwrap();
        fastrace::flush();
        fastrace::flush();
        let after = names(&collected);
        (after.clone(), after)
    } else {
        fastrace::flush();
        fastrace::flush();
        let while_idle = names(&collected);
        exit_tx.send(()).unwrap();
        worker.join().unwrap();
        fastrace::flush();
        (while_idle, names(&collected))
    }
}

#[test]
fn commit_parked_on_idle_thread() {
    let (while_idle, after_exit) = scenario(false);
    eprintln!("while worker idle: {while_idle:?}; after worker exit: {after_exit:?}");
    // The root finished long ago and two full collector cycles ran: the child, which finished
    // before the root while the queue had room, must have been delivered.
    assert!(while_idle.contains(&"child".to_string()), "while idle: {while_idle:?}, after exit: {after_exit:?}");
}

#[test]
fn commit_discarded_at_thread_exit() {
    let (_, after) = scenario(true);
    assert!(after.contains(&"child".to_string()), "delivered: {after:?}");
}
