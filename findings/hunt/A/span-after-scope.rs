// FINDING span-after-scope  (Property C01, builds with debug assertions only)
//
// Violated clause: "... in whatever order spans finish": a legal order of drops panics inside a
// destructor (same kind as the already repaired debug_assert in LocalParentGuard::drop).
//
// Cause: LocalSpanStack::exit_span (fastrace/src/local/local_span_stack.rs:43-51) asserts with
// debug_assert_eq! that the current span line is the one the LocalSpan was recorded in.  When the
// LocalSpan's own scope has already ended (its guard was dropped first: the span has been submitted
// with the scope's end time, which is what C01 describes) and an enclosing scope is current, the
// assertion fails.  SpanLine::finish_span (local_span_line.rs:56-60) already handles the case by
// ignoring the stale handle, and without debug assertions the test passes.
// (LocalSpanStack::with_properties, local_span_stack.rs:121-126, has the same two assertions.)
//
// Run (place this file at fastrace/tests/hunt_span_after_scope.rs):
//   cargo test --offline --manifest-path fastrace/Cargo.toml --test hunt_span_after_scope

use std::time::Duration;

use fastrace::collector::Config;
use fastrace::collector::TestReporter;
use fastrace::prelude::*;

#[test]
fn local_span_outlives_its_inner_scope() {
    let (reporter, collected) = TestReporter::new();
    fastrace::set_reporter(
        reporter,
        Config::default().report_interval(Duration::from_secs(3600)),
    );
    std::thread::sleep(Duration::from_millis(300));

    let result = std::panic::catch_unwind(|| {
        let root = Span::root("root", SpanContext::random());
        let child = Span::enter_with_parent("child", &root);
        let _outer = root.set_local_parent();
        let inner = child.set_local_parent();
        let s = LocalSpan::enter_with_local_parent("s");
        drop(inner); // the scope `s` was recorded in ends: `s` is submitted
        drop(s); // the handle is dropped afterwards
    });

    fastrace::flush();
    let mut names: Vec<String> = collected.lock().iter().map(|s| s.name.to_string()).collect();
    names.sort();
    assert!(result.is_ok(), "dropping the LocalSpan panicked; delivered: {names:?}");
    assert_eq!(names, ["child", "root", "s"]);
}
