// FINDING start-lost  (Property C03)
//
// Violated clause: "When the root finishes without having been cancelled, the root and every span
// of the trace that finished before it ... are delivered together in a single report call".
//
// Cause: GlobalCollect::start_collect (fastrace/src/collector/global_collector.rs:130-134) sends
// StartCollect with the non-forced send_command (global_collector.rs:54-58), whose ChannelFull
// error is discarded with .ok().  If the creating thread's ring happens to be full at the instant
// Span::root runs, the trace never gets an ActiveCollector.  With cancelable(true) every later
// SubmitSpans of that trace, from any thread and however empty the queues are by then, falls into
// the "no active collector and cancelable => drop" branch (global_collector.rs:318-331 and
// 336-351), and the CommitCollect finds nothing (global_collector.rs:359-368).  The whole trace
// vanishes although none of its span sets was submitted while a queue was full.
// (In the default configuration the same spans go through stale_spans and are delivered.)
//
// Run (place this file at fastrace/tests/hunt_start_lost.rs):
//   cargo test --offline --manifest-path fastrace/Cargo.toml --test hunt_start_lost

use std::time::Duration;

use fastrace::collector::Config;
use fastrace::collector::TestReporter;
use fastrace::prelude::*;

const QUEUE: usize = 10240;

#[test]
fn root_created_while_queue_full_loses_whole_trace() {
    let (reporter, collected) = TestReporter::new();
    fastrace::set_reporter(
        reporter,
        Config::default()
            .cancelable(true)
            .report_interval(Duration::from_secs(3600)),
    );
    std::thread::sleep(Duration::from_millis(300));

    // An earlier, unrelated trace floods this thread's command queue.
    let noise = Span::root("noise", SpanContext::random());
    for _ in 0..QUEUE {
        noise.add_event(Event::new("filler"));
    }

    // The queue is full at this instant only.
    let root = Span::root("root", SpanContext::random());

    // A collector cycle empties the queue; everything below is sent with plenty of room.
    fastrace::flush();

    drop(Span::enter_with_parent("child", &root));
    {
        let _g = root.set_local_parent();
        let _l = LocalSpan::enter_with_local_parent("local");
    }
    drop(root); // finished, never cancelled
    fastrace::flush();
    fastrace::flush();

    let mut names: Vec<String> = collected
        .lock()
        .iter()
        .map(|s| s.name.to_string())
        .filter(|n| n != "noise")
        .collect();
    names.sort();
    assert_eq!(names, ["child", "local", "root"]);
    drop(noise);
}
