// Two small, literal violations (low severity).
// 1. Property C18, clause "Span::elapsed() returns ... None for a span that is not recording".
//    Span::enter_with_parents with an empty parent set, or with parents that are all noop, builds a Span with
//    `inner: Some(..)` and an empty collect token (fastrace/src/span.rs:153-171); it can never record anything
//    (submit_spans drops it, global_collector.rs:172-180), yet elapsed() (span.rs:418-425) returns Some(..).
//    Span::enter_with_parent on the same noop parent returns a noop span (elapsed() == None).
// 2. Property C17, clause "to_span_records(context) returns exactly the records that pushing the same set under
//    a span with that context would deliver". LocalSpansInner::to_span_records
//    (fastrace/src/collector/global_collector.rs:395-409) ignores `context.sampled`; pushing under an unsampled
//    span delivers nothing (global_collector.rs:172-174), to_span_records still returns all records.
//
// Run (from /tmp/hunt-D):
//   cp findings/minor-elapsed-and-unsampled-conversion.rs fastrace/tests/hunt_minor.rs
//   cargo test --offline --manifest-path fastrace/Cargo.toml --test hunt_minor

use std::time::Duration;

use fastrace::collector::Config;
use fastrace::collector::TestReporter;
use fastrace::local::LocalCollector;
use fastrace::prelude::*;
use serial_test::serial;

fn cfg() -> Config {
    Config::default().report_interval(Duration::from_secs(3600))
}

/// C18: elapsed() is None for a span that is not recording.
#[test]
#[serial]
fn elapsed_of_span_without_recording_parent() {
    let (reporter, collected) = TestReporter::new();
    fastrace::set_reporter(reporter, cfg());

    let noop = Span::noop();
    assert!(noop.elapsed().is_none());
    assert!(Span::enter_with_parent("x", &noop).elapsed().is_none());

    let no_parents = Span::enter_with_parents("x", std::iter::empty::<&Span>());
    let noop_parents = Span::enter_with_parents("x", [&noop, &noop]);
    let e1 = no_parents.elapsed();
    let e2 = noop_parents.elapsed();
    drop(no_parents);
    drop(noop_parents);
    fastrace::flush();
    assert!(collected.lock().is_empty(), "nothing is recorded for these spans");
    assert!(e1.is_none(), "span with an empty parent set reports elapsed {e1:?}");
    assert!(e2.is_none(), "span whose parents are all noop reports elapsed {e2:?}");
}

/// C17: to_span_records(context) == what pushing under a span with that context delivers.
#[test]
#[serial]
fn to_span_records_with_unsampled_context() {
    let (reporter, collected) = TestReporter::new();
    fastrace::set_reporter(reporter, cfg());

    let collector = LocalCollector::start();
    {
        let _s = LocalSpan::enter_with_local_parent("s");
    }
    let local_spans = collector.collect();

    let parent = Span::root("parent", SpanContext::random().sampled(false));
    let context = SpanContext::from_span(&parent).unwrap();
    assert!(!context.sampled);
    parent.push_child_spans(local_spans.clone());
    drop(parent);
    fastrace::flush();
    let delivered = collected.lock().clone();

    let converted = local_spans.to_span_records(context);
    assert_eq!(
        converted.len(),
        delivered.len(),
        "to_span_records returned {converted:?} but pushing delivered {delivered:?}"
    );
}
