// Property C06 (default, non-cancelable configuration).
// Violated clause: "Every property and event attached to a span ... appears exactly once on that span's
//   delivered record ... wherever collector cycles fall between the attachment and the span's finish".
// Cause: GlobalCollect::start_collect sends StartCollect with the non-forced send_command
//   (fastrace/src/collector/global_collector.rs:130-134, 54-58). If the creating thread's command queue is full at
//   that instant the StartCollect is dropped, and the trace never gets an ActiveCollector. In the default
//   configuration every later SubmitSpans of that trace -- submitted long after the queue has been emptied --
//   takes the "stale" route (global_collector.rs:326-332, 345-351) and is post-processed alone with a fresh,
//   throw-away dangling map (global_collector.rs:381-388). So for the whole remaining life of the trace the span
//   records ARE delivered, but every event/property attached through a Span handle or through a Span's
//   local-parent scope is discarded. Nothing that is lost here was submitted while a queue was full; only
//   the root's creation coincided with a full queue.
//   (With Config::cancelable(true) the whole trace is dropped instead, which is a plain loss.)
//
// Run (from /tmp/hunt-D):
//   cp findings/start-collect-lost.rs fastrace/tests/hunt_start_collect_lost.rs
//   cargo test --offline --manifest-path fastrace/Cargo.toml --test hunt_start_collect_lost

use std::time::Duration;

use fastrace::collector::Config;
use fastrace::collector::TestReporter;
use fastrace::prelude::*;

fn run(cancelable: bool) {
    let (reporter, collected) = TestReporter::new();
    fastrace::set_reporter(
        reporter,
        Config::default()
            .cancelable(cancelable)
            .report_interval(Duration::from_secs(3600)),
    );
    // Let the background collector perform its initial cycle and go to sleep for an hour.
    std::thread::sleep(Duration::from_millis(200));

    // A burst fills this thread's command queue (10240 commands).
    let filler = Span::root("filler", SpanContext::random());
    for _ in 0..10240 {
        filler.add_event(Event::new("burst"));
    }

    // The trace under test starts while the queue is full ...
    let root = Span::root("root", SpanContext::random());
    // ... a collector cycle empties the queue ...
    fastrace::flush();
    // ... and from here on nothing is full any more.
    root.add_event(Event::new("event-on-root"));
    root.add_property(|| ("prop-on-root", "v"));
    let child = Span::enter_with_parent("child", &root);
    child.add_event(Event::new("event-on-child"));
    {
        let _g = child.set_local_parent();
        LocalSpan::add_event(Event::new("local-event-on-child"));
    }
    fastrace::flush(); // a cycle between attachment and finish
    drop(child);
    drop(root);
    drop(filler);
    fastrace::flush();

    let spans = collected.lock().clone();
    let root = spans.iter().find(|s| s.name == "root");
    let child = spans.iter().find(|s| s.name == "child");
    println!(
        "cancelable={cancelable}: root={:?}\nchild={:?}",
        root.map(|r| (&r.events, &r.properties)),
        child.map(|r| (&r.events, &r.properties))
    );
    // If the records are delivered at all, C06 demands their attachments on them.
    if let Some(root) = root {
        assert_eq!(root.events.len(), 1, "root delivered without its event");
        assert_eq!(root.properties.len(), 1, "root delivered without its property");
    }
    if let Some(child) = child {
        assert_eq!(child.events.len(), 2, "child delivered without its events");
    }
}

#[test]
fn default_config() {
    run(false);
}
