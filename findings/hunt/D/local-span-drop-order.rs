// Properties C18 and C06.
// Violated clauses: C18 "The interval of a local span lies within the interval of its enclosing local span",
//   "every event's timestamp lies within the interval of the local span it was recorded in";
//   C06 an attachment made through the thread's local parent appears on that span "and on no other".
// Cause: SpanQueue::finish_span (fastrace/src/local/span_queue.rs:55-66) sets
//   `next_parent_id = parent of the span being finished`, assuming the span being finished is the innermost
//   open one (only a debug_assert checks it, span_queue.rs:57-60). Two LocalSpan guards dropped in creation
//   order -- tuple / struct fields, `drop(a); drop(b);` -- leave next_parent_id = Some(a) although `a` is
//   finished. Every later local span, event, property and Span::enter_with_local_parent of the scope becomes a
//   child of / is attached to the finished span `a`.
//   With debug assertions the first drop panics inside a destructor instead.
//
// Run (from /tmp/hunt-D):
//   cp findings/local-span-drop-order.rs fastrace/tests/hunt_local_span_drop_order.rs
//   cargo test --offline --manifest-path fastrace/Cargo.toml --test hunt_local_span_drop_order
// and, for the behaviour of a build without debug assertions (what `--release` gives):
//   cargo test --offline --config 'profile.dev.package."fastrace@0.7.9".debug-assertions=false' \
//       --manifest-path fastrace/Cargo.toml --test hunt_local_span_drop_order

use std::time::Duration;

use fastrace::collector::Config;
use fastrace::collector::TestReporter;
use fastrace::prelude::*;

/// Two LocalSpan guards dropped in creation order (what a tuple, a struct with two guard fields,
/// or an explicit `drop(a); drop(b);` does), followed by more work in the same scope.
#[test]
fn local_spans_dropped_in_creation_order() {
    let (reporter, collected) = TestReporter::new();
    fastrace::set_reporter(
        reporter,
        Config::default().report_interval(Duration::from_secs(3600)),
    );

    {
        let root = Span::root("root", SpanContext::random());
        let _g = root.set_local_parent();

        {
            // Tuple fields are dropped in order: first `a`, then `b`.
            let _guards = (
                LocalSpan::enter_with_local_parent("a"),
                LocalSpan::enter_with_local_parent("b"),
            );
            std::thread::sleep(Duration::from_millis(2));
        }

        // Both `a` and `b` are finished. No local span is open: the local parent is `root`.
        std::thread::sleep(Duration::from_millis(2));
        LocalSpan::add_event(Event::new("event-for-root"));
        LocalSpan::add_property(|| ("prop-for-root", "v"));
        let _c = LocalSpan::enter_with_local_parent("c");
        std::thread::sleep(Duration::from_millis(2));
    }

    fastrace::flush();
    let spans = collected.lock().clone();
    let get = |n: &str| spans.iter().find(|s| s.name == n).unwrap_or_else(|| panic!("{n} delivered")).clone();
    let (root, a, c) = (get("root"), get("a"), get("c"));
    let end = |s: &fastrace::collector::SpanRecord| s.begin_time_unix_ns + s.duration_ns;
    println!("root={:?} a={:?}..{} c.parent={:?} c={}..{}", root.span_id, a.span_id, end(&a), c.parent_id, c.begin_time_unix_ns, end(&c));
    println!("a.events={:?} a.properties={:?} root.events={:?} root.properties={:?}", a.events, a.properties, root.events, root.properties);

    // C06: attached through the thread's local parent while no local span was open => on root only.
    assert!(a.events.is_empty(), "event attached after `a` had finished was delivered on `a`");
    assert!(a.properties.is_empty(), "property attached after `a` had finished was delivered on `a`");
    // C18: a local span lies within the interval of its enclosing local span.
    if c.parent_id == a.span_id {
        assert!(
            c.begin_time_unix_ns >= a.begin_time_unix_ns && end(&c) <= end(&a),
            "`c` [{}..{}] is delivered as a child of `a` [{}..{}] which finished before `c` started",
            c.begin_time_unix_ns, end(&c), a.begin_time_unix_ns, end(&a)
        );
    }
    assert_eq!(c.parent_id, root.span_id);
}
