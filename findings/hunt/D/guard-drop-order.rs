// Property C06.
// Violated clause: every event attached through the thread's local parent "appears exactly once on that span's
//   delivered record" (the scope ended before the span finished, the span finished before the root).
// Cause: LocalSpanStack::unregister_and_collect (fastrace/src/local/local_span_stack.rs:85-95) pops the TOP
//   span line whatever handle it is given and then SpanLine::collect (fastrace/src/local/local_span_line.rs:124-127)
//   returns None because the epoch differs. Two LocalParentGuards (or LocalCollectors) released in creation
//   order therefore each destroy the other's scope: the contents of BOTH scopes are silently discarded.
//   With debug assertions the first drop panics inside a destructor (local_span_stack.rs:89).
//
// Run (from /tmp/hunt-D):
//   cp findings/guard-drop-order.rs fastrace/tests/hunt_guard_drop_order.rs
//   cargo test --offline --manifest-path fastrace/Cargo.toml --test hunt_guard_drop_order
// and, for the behaviour of a build without debug assertions (what `--release` gives):
//   cargo test --offline --config 'profile.dev.package."fastrace@0.7.9".debug-assertions=false' \
//       --manifest-path fastrace/Cargo.toml --test hunt_guard_drop_order

use std::time::Duration;

use fastrace::collector::Config;
use fastrace::collector::TestReporter;
use fastrace::prelude::*;

/// Two local-parent guards released in creation order.
#[test]
fn local_parent_guards_dropped_in_creation_order() {
    let (reporter, collected) = TestReporter::new();
    fastrace::set_reporter(
        reporter,
        Config::default().report_interval(Duration::from_secs(3600)),
    );

    {
        let root = Span::root("root", SpanContext::random());
        let a = Span::enter_with_parent("a", &root);
        let b = Span::enter_with_parent("b", &root);

        let ga = a.set_local_parent();
        LocalSpan::add_event(Event::new("event-for-a"));
        let gb = b.set_local_parent();
        LocalSpan::add_event(Event::new("event-for-b"));

        drop(ga);
        drop(gb);
    }

    fastrace::flush();
    let spans = collected.lock().clone();
    let a = spans.iter().find(|s| s.name == "a").expect("a delivered");
    let b = spans.iter().find(|s| s.name == "b").expect("b delivered");
    println!("a.events={:?} b.events={:?}", a.events, b.events);
    assert_eq!(a.events.iter().map(|e| e.name.as_ref()).collect::<Vec<_>>(), ["event-for-a"]);
    assert_eq!(b.events.iter().map(|e| e.name.as_ref()).collect::<Vec<_>>(), ["event-for-b"]);
}
