// Property C06 (also C17/C18 by the same cause).
// Violated clause: an attachment "appears exactly once on that span's delivered record ... and on no other".
// Cause: when the thread's scope stack is full (4096), LocalSpanStack::register_span_line returns None
//   (fastrace/src/local/local_span_stack.rs:71-73), LocalCollector::new then holds nothing
//   (fastrace/src/local/local_collector.rs:137-147) and Span::set_local_parent returns an inert guard
//   (fastrace/src/span.rs:526-531) -- but the previous scope stays on top of the stack, and
//   LocalSpan::add_event / add_property / enter_with_local_parent, Span::enter_with_local_parent and
//   SpanContext::current_local_parent all use `span_lines.last_mut()` (local_span_stack.rs:137-139).
//   Everything attached while span `b` is the requested local parent is therefore recorded in the scope of
//   span `a` and DELIVERED ON `a` (which may even belong to another trace). Losing it would be the
//   documented over-limit behaviour; delivering it on a different span is not.
//   The same happens for LocalCollector::start() beyond the limit: the spans meant for the collector are
//   delivered under the enclosing scope's parent and the collector returns an empty set.
//
// Run (from /tmp/hunt-D):
//   cp findings/scope-limit-misattribution.rs fastrace/tests/hunt_scope_limit.rs
//   cargo test --offline --manifest-path fastrace/Cargo.toml --test hunt_scope_limit

use std::time::Duration;

use fastrace::collector::Config;
use fastrace::collector::TestReporter;
use fastrace::prelude::*;

#[test]
fn attachment_beyond_scope_limit_lands_on_another_span() {
    let (reporter, collected) = TestReporter::new();
    fastrace::set_reporter(
        reporter,
        Config::default().report_interval(Duration::from_secs(3600)),
    );

    {
        let root = Span::root("root", SpanContext::random());
        let a = Span::enter_with_parent("a", &root);
        let b = Span::enter_with_parent("b", &root);

        // Fill the thread's scope stack (4096 scopes), all of them with `a` as local parent.
        let mut guards = Vec::new();
        for _ in 0..4096 {
            guards.push(a.set_local_parent());
        }

        // Scope 4097: `b` is asked to become the local parent. The scope cannot be registered.
        let gb = b.set_local_parent();
        LocalSpan::add_event(Event::new("event-for-b"));
        LocalSpan::add_property(|| ("prop-for-b", "v"));
        {
            let _child = LocalSpan::enter_with_local_parent("local-child-of-b");
        }
        drop(gb);

        // LIFO release of the 4096 scopes.
        while let Some(g) = guards.pop() {
            drop(g);
        }
    }

    fastrace::flush();
    let spans = collected.lock().clone();
    let a = spans.iter().find(|s| s.name == "a").expect("a delivered");
    let b = spans.iter().find(|s| s.name == "b").expect("b delivered");
    println!("a = {a:#?}\nb = {b:#?}");
    for s in spans.iter().filter(|s| s.name == "local-child-of-b") {
        println!("local-child-of-b delivered with parent {:?} (a={:?}, b={:?})", s.parent_id, a.span_id, b.span_id);
    }

    // C06: an attachment appears on the span it was attached to "and on no other".
    // Losing it (limit exceeded) would be tolerable; delivering it on `a` is not.
    assert!(
        a.events.iter().all(|e| e.name != "event-for-b"),
        "event attached while `b` was the requested local parent was delivered on span `a`"
    );
    assert!(
        a.properties.iter().all(|(k, _)| k != "prop-for-b"),
        "property attached while `b` was the requested local parent was delivered on span `a`"
    );
    assert!(
        spans
            .iter()
            .filter(|s| s.name == "local-child-of-b")
            .all(|s| s.parent_id == b.span_id),
        "local span started under `b` was delivered as a child of `a`"
    );
}
