// Properties C18, C06, C17.
// Violated clauses:
//   C17 "spans still open when the set was collected are closed at the collection time" -- dropping the guard of
//       such a span afterwards panics (debug assertions) when an enclosing scope exists
//       [test open_span_dropped_after_its_set_was_collected; passes without debug assertions];
//   C06 "Every property ... attached to a span (at creation, later ...) appears exactly once on that span's
//       delivered record" [test with_property_while_nested_scope_is_on_top: property silently dropped];
//   C18 "Every delivered record's duration equals the monotonic time between the span's start and its finish"
//       [tests drop_while_nested_scope_is_on_top, local_span_held_across_await: the finish is ignored and the
//       span is closed when its scope is collected instead].
// Cause: a LocalSpan guard acts on whatever scope is on top of the thread's scope stack:
//   LocalSpanStack::exit_span / with_properties (fastrace/src/local/local_span_stack.rs:43-51, 111-129) take
//   `current_span_line()`, debug_assert that its epoch is the guard's, and SpanLine::finish_span /
//   with_properties (fastrace/src/local/local_span_line.rs:56-60, 87-102) silently do nothing on a mismatch.
//   A nested scope (LocalCollector::start(), Span::set_local_parent(), or the per-poll scope of
//   FutureExt::in_span -- fastrace/src/future.rs:123) being on top at that moment is enough.
//   With debug assertions each of these panics (twice, aborting the process, in the with_property case).
//
// Run (from /tmp/hunt-D):
//   cp findings/local-span-cross-scope.rs fastrace/tests/hunt_local_span_cross_scope.rs
//   cargo test --offline --manifest-path fastrace/Cargo.toml --test hunt_local_span_cross_scope
// and, for the behaviour of a build without debug assertions (what `--release` gives):
//   cargo test --offline --config 'profile.dev.package."fastrace@0.7.9".debug-assertions=false' \
//       --manifest-path fastrace/Cargo.toml --test hunt_local_span_cross_scope

use std::time::Duration;

use fastrace::collector::Config;
use fastrace::collector::TestReporter;
use fastrace::local::LocalCollector;
use fastrace::prelude::*;
use serial_test::serial;

fn cfg() -> Config {
    Config::default().report_interval(Duration::from_secs(3600))
}

/// A LocalSpan guard that is still open when its set is collected (the case C17 speaks about)
/// and is dropped afterwards, while an outer scope is still active.
#[test]
#[serial]
fn open_span_dropped_after_its_set_was_collected() {
    let (reporter, _collected) = TestReporter::new();
    fastrace::set_reporter(reporter, cfg());

    let root = Span::root("root", SpanContext::random());
    let _g = root.set_local_parent(); // outer scope

    let collector = LocalCollector::start(); // inner scope
    let open = LocalSpan::enter_with_local_parent("open");
    let local_spans = collector.collect(); // "open" is closed at the collection time
    let records = local_spans.to_span_records(SpanContext::random());
    assert_eq!(records.len(), 1);

    drop(open); // must be harmless
}

/// A property given to a LocalSpan (builder style `with_property`) while a nested scope is on top.
#[test]
#[serial]
fn with_property_while_nested_scope_is_on_top() {
    let (reporter, collected) = TestReporter::new();
    fastrace::set_reporter(reporter, cfg());

    {
        let root = Span::root("root", SpanContext::random());
        let _g = root.set_local_parent();

        let handler = LocalSpan::enter_with_local_parent("handler");
        let nested = LocalCollector::start(); // e.g. capture the spans of a sub-step
        let handler = handler.with_property(|| ("result", "ok"));
        let _ = nested.collect();
        drop(handler);
    }

    fastrace::flush();
    let spans = collected.lock().clone();
    let handler = spans.iter().find(|s| s.name == "handler").expect("handler delivered");
    assert_eq!(
        handler.properties,
        vec![("result".into(), "ok".into())],
        "property attached to `handler` is not on its record"
    );
}

/// A LocalSpan dropped while a nested scope is on top: its finish is not recorded.
#[test]
#[serial]
fn drop_while_nested_scope_is_on_top() {
    let (reporter, collected) = TestReporter::new();
    fastrace::set_reporter(reporter, cfg());

    {
        let root = Span::root("root", SpanContext::random());
        let _g = root.set_local_parent();

        let short = LocalSpan::enter_with_local_parent("short");
        let nested = LocalCollector::start();
        drop(short); // finishes here, after a few microseconds
        let _ = nested.collect();

        std::thread::sleep(Duration::from_millis(200));
    }

    fastrace::flush();
    let spans = collected.lock().clone();
    let short = spans.iter().find(|s| s.name == "short").expect("short delivered");
    assert!(
        short.duration_ns < 100_000_000,
        "`short` lived a few microseconds but is delivered with duration {} ns",
        short.duration_ns
    );
}

/// A LocalSpan guard held across an `.await` inside a future instrumented with `in_span`:
/// every poll runs in a scope of its own.
#[test]
#[serial]
fn local_span_held_across_await() {
    struct YieldOnce(bool);
    impl std::future::Future for YieldOnce {
        type Output = ();
        fn poll(mut self: std::pin::Pin<&mut Self>, cx: &mut std::task::Context<'_>) -> std::task::Poll<()> {
            if self.0 {
                std::task::Poll::Ready(())
            } else {
                self.0 = true;
                // the task is resumed 200 ms later
                std::thread::sleep(Duration::from_millis(200));
                cx.waker().wake_by_ref();
                std::task::Poll::Pending
            }
        }
    }

    let (reporter, collected) = TestReporter::new();
    fastrace::set_reporter(reporter, cfg());

    {
        let root = Span::root("root", SpanContext::random());
        let outer = root.set_local_parent(); // e.g. block_on called from traced code
        pollster::block_on(
            async {
                let _step = LocalSpan::enter_with_local_parent("step");
                YieldOnce(false).await; // first poll ends here, second poll resumes
                std::thread::sleep(Duration::from_millis(200));
                // `_step` finishes here, 400 ms after it started
            }
            .in_span(Span::enter_with_parent("task", &root)),
        );
        drop(outer);
    }

    fastrace::flush();
    let spans = collected.lock().clone();
    let step = spans.iter().find(|s| s.name == "step").expect("step delivered");
    assert!(
        step.duration_ns >= 390_000_000,
        "`step` ran for 400 ms but is delivered with duration {} ns",
        step.duration_ns
    );
}
