// FINDING E3 -- Property C10 (Local parent scopes nest and restore exactly)
//
// Violated clause: "Setting a span as local parent ... affects only the calling thread and only
// until the returned guard is dropped" -- quantified over "all well-nested sequences of
// scope-opening and scope-closing operations, to any depth, interleaved with span creation".
// The sequence  P{ L{ C{ L.with_property } } }  is well nested (every guard is dropped inside
// the scope it was created in), yet opening the inner scope C breaks the still-open local span L
// of the enclosing scope: a property given to L while C is open
//   * debug build:   panics (debug_assert_eq at fastrace/src/local/local_span_stack.rs:123-126);
//                    the unwinding then drops L inside C and trips the second assertion at
//                    local_span_stack.rs:45-48, i.e. a panic inside a destructor => abort;
//   * release build: is silently discarded and its closure is never run
//                    (fastrace/src/local/local_span_line.rs:98 `if self.epoch == handle.span_line_epoch`).
//
// Cause: `LocalSpan::with_properties` (fastrace/src/local/local_span.rs:91-105) resolves its
// handle against `LocalSpanStack::current_span_line()` (local_span_stack.rs:111-129), i.e. the
// innermost scope of the thread, not against the span line the LocalSpan was started in; every
// `set_local_parent` / `LocalCollector::start` / `in_span` poll pushes a new line
// (local_span_stack.rs:67-83), so the handle's epoch no longer matches.
//
// Run (from /tmp/hunt-E, with this file copied to fastrace/tests/outer_local_span_property_in_nested_scope.rs):
//   cargo test --offline --manifest-path fastrace/Cargo.toml --test outer_local_span_property_in_nested_scope
//        -> panics at local_span_stack.rs:123 and aborts (SIGABRT)
//   cargo test --offline --release --manifest-path fastrace/Cargo.toml --test outer_local_span_property_in_nested_scope
//        -> assertion below fails: L is delivered without the property

use std::time::Duration;

use fastrace::collector::Config;
use fastrace::collector::TestReporter;
use fastrace::prelude::*;

#[test]
fn outer_local_span_property_inside_nested_scope() {
    let (reporter, collected) = TestReporter::new();
    fastrace::set_reporter(
        reporter,
        Config::default().report_interval(Duration::from_secs(3600)),
    );

    {
        let root = Span::root("root", SpanContext::random());
        let _p = root.set_local_parent();
        let l = LocalSpan::enter_with_local_parent("L");
        let l = {
            let child = Span::enter_with_local_parent("child");
            let _c = child.set_local_parent();
            // `l` is still open and the nested scope C lies properly inside it.
            l.with_property(|| ("k", "v"))
        };
        drop(l);
    }
    fastrace::flush();

    let spans = collected.lock().clone();
    let l = spans.iter().find(|s| s.name == "L").expect("L delivered");
    assert_eq!(
        l.properties,
        vec![("k".into(), "v".into())],
        "property added to the open local span L inside a nested scope was lost"
    );
}
