// FINDING E2 -- Property C16 (Disabled tracing is inert and lazy)
//
// Violated clause: "With enable on, the same holds for spans that are not recording (created
// before a reporter is installed, derived from a no-op span, or local operations with no local
// parent): nothing is delivered and the property closures passed to them are not invoked."
//
// Cause: fastrace/src/event.rs:64-78 `Event::with_properties` evaluates `properties()` at once
// whenever the `enable` feature is on (event.rs:71-76); it cannot know whether the event will be
// recorded. The operations that take a property closure together with their (non-recording)
// target evaluate it before looking at the target:
//   - `Event::add_to_local_parent(name, closure)`   event.rs:114-121 (closure run at :119, the
//     local context is only consulted at :120)
//   - `Event::add_to_parent(name, &span, closure)`  event.rs:92-99  (closure run at :97, the
//     no-op check happens in `Span::add_event`, span.rs:349-359)
// and so does the recommended replacement `span.add_event(Event::new(..).with_property(closure))`
// / `LocalSpan::add_event(Event::new(..).with_property(closure))`.
// Without the `enable` feature the same closures are never run (event.rs:71 is cfg'd out), so the
// API is lazy in the disabled build and eager in the enabled-but-not-recording case.
//
// Run (from /tmp/hunt-E, with this file copied to fastrace/tests/eager_event_properties.rs):
//   cargo test --offline --manifest-path fastrace/Cargo.toml --test eager_event_properties
//
// No reporter is ever installed in this test binary: nothing is recording.

use std::sync::atomic::AtomicUsize;
use std::sync::atomic::Ordering;

use fastrace::prelude::*;

#[test]
#[allow(deprecated)]
fn event_property_closures_run_although_nothing_records() {
    let calls = AtomicUsize::new(0);
    let noop = Span::root("root", SpanContext::random());
    assert!(noop.elapsed().is_none(), "no reporter: root is a no-op span");

    // local operation with no local parent
    assert!(SpanContext::current_local_parent().is_none());
    Event::add_to_local_parent("e", || {
        calls.fetch_add(1, Ordering::SeqCst);
        [("k".into(), "v".into())]
    });
    let after_local = calls.load(Ordering::SeqCst);

    // operation on a no-op span
    Event::add_to_parent("e", &noop, || {
        calls.fetch_add(1, Ordering::SeqCst);
        [("k".into(), "v".into())]
    });
    let after_parent = calls.load(Ordering::SeqCst);

    // the non-deprecated spelling of the same two operations
    noop.add_event(Event::new("e").with_property(|| {
        calls.fetch_add(1, Ordering::SeqCst);
        ("k", "v")
    }));
    LocalSpan::add_event(Event::new("e").with_property(|| {
        calls.fetch_add(1, Ordering::SeqCst);
        ("k", "v")
    }));
    let after_builder = calls.load(Ordering::SeqCst);

    assert_eq!(
        (after_local, after_parent, after_builder),
        (0, 0, 0),
        "event property closures were invoked although nothing is recording"
    );
}
