// FINDING E1 -- Property C16 (Disabled tracing is inert and lazy)
//
// Violated clause: "With enable on, the same holds for spans that are not recording (created
// before a reporter is installed, derived from a no-op span, ...): nothing is delivered and the
// property closures passed to them are not invoked" (and "the same" includes elapsed() == None).
//
// Cause: fastrace/src/span.rs:153-171 `Span::enter_with_parents` filters the no-op parents out
// (`filter_map(|span| span.inner.as_ref())`) and then calls `Span::new(token, name, None)`
// (span.rs:169) unconditionally, also when the resulting collect token is EMPTY. `Span::new`
// (span.rs:462-486) always builds `inner: Some(..)`. The same happens in
// `Span::enter_with_stack` (span.rs:488-496) when the local parent is such an empty-token span
// (`current_collect_token()` returns `Some(vec![])`). Unlike `enter_with_parent`
// (span.rs:126-129), which maps a no-op parent to `Span::noop()`, the resulting span is a live
// span that belongs to no trace: `with_properties` (span.rs:279-281) and `add_properties`
// (span.rs:329) invoke the user's closure, `elapsed()` returns `Some`, ids and clocks are read,
// and the whole subtree derived from it behaves the same way. Nothing can ever be delivered for
// it (`submit_spans` drops the empty token), so the closures are evaluated for nothing.
// It needs no reporter either: `enter_with_parents` never checks `reporter_ready()`.
//
// Run (from /tmp/hunt-E, with this file copied to fastrace/tests/noop_derived_span_records.rs):
//   cargo test --offline --manifest-path fastrace/Cargo.toml --test noop_derived_span_records
//
// No reporter is ever installed in this test binary, so `Span::root` returns a no-op span.

use std::sync::atomic::AtomicUsize;
use std::sync::atomic::Ordering;

use fastrace::prelude::*;

#[test]
fn span_derived_from_noop_reports_elapsed() {
    let root = Span::root("root", SpanContext::random());
    assert!(root.elapsed().is_none(), "root must be a no-op span");
    assert!(SpanContext::from_span(&root).is_none());

    // control: the single-parent constructor is inert
    let c0 = Span::enter_with_parent("c0", &root);
    assert!(c0.elapsed().is_none());

    let c1 = Span::enter_with_parents("c1", [&root]);
    assert!(SpanContext::from_span(&c1).is_none());
    let elapsed = c1.elapsed();
    assert!(
        elapsed.is_none(),
        "span derived from a no-op span reports elapsed() = {elapsed:?}"
    );
}

#[test]
fn span_derived_from_noop_invokes_property_closures() {
    let calls = AtomicUsize::new(0);
    let root = Span::noop();

    // control: the single-parent constructor is lazy
    let _c0 = Span::enter_with_parent("c0", &root).with_property(|| {
        calls.fetch_add(1, Ordering::SeqCst);
        ("k", "v")
    });
    assert_eq!(calls.load(Ordering::SeqCst), 0);

    let c1 = Span::enter_with_parents("c1", [&root]).with_property(|| {
        calls.fetch_add(1, Ordering::SeqCst);
        ("k", "v")
    });
    c1.add_property(|| {
        calls.fetch_add(1, Ordering::SeqCst);
        ("k", "v")
    });
    {
        let _g = c1.set_local_parent();
        assert!(SpanContext::current_local_parent().is_none());
        let _c2 = Span::enter_with_local_parent("c2").with_property(|| {
            calls.fetch_add(1, Ordering::SeqCst);
            ("k", "v")
        });
    }
    // the empty parent set behaves the same
    let _c3 = Span::enter_with_parents("c3", []).with_property(|| {
        calls.fetch_add(1, Ordering::SeqCst);
        ("k", "v")
    });

    assert_eq!(
        calls.load(Ordering::SeqCst),
        0,
        "property closures of spans derived from a no-op span were invoked"
    );
}
