// CANDIDATE E4 (interpretation-dependent, see REPORT.md) -- Property C13 / C10 / C16
//
// Clause in question: C13 "A future wrapped with in_span(span) has that span as local parent
// during every poll"; C16 "spans that are not recording (... derived from a no-op span ...):
// nothing is delivered".
//
// Behaviour: for a no-op span, `Span::set_local_parent` (fastrace/src/span.rs:225-237,
// `attach_into_stack` span.rs:498-506) returns an inert guard and pushes NO scope, so during the
// polls of `fut.in_span(Span::noop())` the local parent is whatever the polling thread had before
// (here: `root`), and local spans recorded by the future are delivered under that outer span.
// A span that is not recording for another reason (unsampled, or the empty-token span of finding
// E1) DOES push a scope and shadows the outer context, so the two kinds of non-recording span
// behave differently.
//
// Run (from /tmp/hunt-E, with this file copied to fastrace/tests/candidate_noop_in_span_scope.rs):
//   cargo test --offline --manifest-path fastrace/Cargo.toml --test candidate_noop_in_span_scope

use std::time::Duration;

use fastrace::collector::Config;
use fastrace::collector::TestReporter;
use fastrace::prelude::*;

#[test]
fn noop_in_span_leaks_outer_context() {
    let (reporter, collected) = TestReporter::new();
    fastrace::set_reporter(
        reporter,
        Config::default().report_interval(Duration::from_secs(3600)),
    );

    {
        let root = Span::root("root", SpanContext::random());
        let outer = async {
            async {
                let _l = LocalSpan::enter_with_local_parent("inside-noop");
            }
            .in_span(Span::noop())
            .await;
            async {
                let _l = LocalSpan::enter_with_local_parent("inside-unsampled");
            }
            .in_span(Span::root("u", SpanContext::random().sampled(false)))
            .await;
        }
        .in_span(root);
        pollster::block_on(outer);
    }
    fastrace::flush();
    let names: Vec<_> = collected.lock().iter().map(|s| s.name.to_string()).collect();
    // the unsampled span shadows the outer context ...
    assert_eq!(names.iter().filter(|n| *n == "inside-unsampled").count(), 0);
    // ... the no-op span does not
    assert_eq!(
        names.iter().filter(|n| *n == "inside-noop").count(),
        0,
        "local span recorded inside in_span(Span::noop()) was delivered under the outer span: {names:?}"
    );
}
