// FINDING otel-end-time-overflow
// Property : C19 (Bundled reporters transmit records faithfully)
// Clause   : "For every batch of records given to the ... OpenTelemetry reporter, each record is transmitted
//            exactly once with its ... start time and duration ... unchanged"; quantified over all record
//            batches ("very large times").
// Cause    : fastrace-opentelemetry/src/lib.rs:140-141
//                Duration::from_nanos(begin_time_unix_ns + duration_ns)
//            adds two u64 nanosecond counts in u64 although the target (SystemTime / Duration) has room for
//            the sum. With overflow checks (debug/test profile) report() panics "attempt to add with
//            overflow" inside convert(), before export is called: NO record of the batch is exported, and the
//            panic unwinds into the caller (the collector thread). Without overflow checks (--release) the sum
//            wraps: the exported span ends in 1970, ~584 years before it starts (duration lost).
// Run      : cp findings/otel-end-time-overflow.rs fastrace-opentelemetry/tests/hunt_otel.rs &&
//            cargo test --offline --manifest-path fastrace-opentelemetry/Cargo.toml --test hunt_otel
//            (add --release to see the wrapped end time instead of the panic)
// Expected : large_times_do_not_panic_and_keep_the_duration FAILS; faithful_for_ordinary_records passes.
// Uses only the public API with an in-memory SpanExporter.

use std::borrow::Cow;
use std::sync::Arc;
use std::sync::Mutex;
use std::time::Duration;
use std::time::SystemTime;

use fastrace::collector::EventRecord;
use fastrace::collector::Reporter;
use fastrace::prelude::*;
use fastrace_opentelemetry::OpenTelemetryReporter;
use opentelemetry::InstrumentationScope;
use opentelemetry::trace::SpanKind;
use opentelemetry_sdk::Resource;
use opentelemetry_sdk::error::OTelSdkResult;
use opentelemetry_sdk::trace::SpanData;
use opentelemetry_sdk::trace::SpanExporter;

#[derive(Debug, Clone, Default)]
struct Store(Arc<Mutex<Vec<SpanData>>>);

impl SpanExporter for Store {
    fn export(&self, batch: Vec<SpanData>) -> impl std::future::Future<Output = OTelSdkResult> + Send {
        self.0.lock().unwrap().extend(batch);
        async { Ok(()) }
    }
}

fn reporter(store: &Store) -> OpenTelemetryReporter {
    OpenTelemetryReporter::new(
        store.clone(),
        SpanKind::Server,
        Cow::Owned(Resource::builder().build()),
        InstrumentationScope::builder("x").build(),
    )
}

fn ns(t: SystemTime) -> u128 {
    t.duration_since(SystemTime::UNIX_EPOCH).unwrap().as_nanos()
}

/// Sanity (passes): ids with the top bit set, properties and events arrive unchanged.
#[test]
fn faithful_for_ordinary_records() {
    let store = Store::default();
    let recs = vec![
        SpanRecord {
            trace_id: TraceId(u128::MAX - 1),
            span_id: SpanId(1 << 63),
            parent_id: SpanId(u64::MAX),
            begin_time_unix_ns: 1_700_000_000_123_456_789,
            duration_ns: 987_654_321,
            name: "a".into(),
            properties: vec![("k".into(), "v".into()), ("k".into(), "w".into()), ("".into(), "".into())],
            events: vec![EventRecord {
                name: "e".into(),
                timestamp_unix_ns: 1_700_000_000_223_456_789,
                properties: vec![("ek".into(), "ev".into())],
            }],
        },
        SpanRecord { trace_id: TraceId(7), span_id: SpanId(2), name: "b".into(), ..Default::default() },
    ];
    reporter(&store).report(recs.clone());
    let got = store.0.lock().unwrap().clone();
    assert_eq!(got.len(), 2);
    let g = &got[0];
    assert_eq!(u128::from_be_bytes(g.span_context.trace_id().to_bytes()), u128::MAX - 1);
    assert_eq!(u64::from_be_bytes(g.span_context.span_id().to_bytes()), 1 << 63);
    assert_eq!(u64::from_be_bytes(g.parent_span_id.to_bytes()), u64::MAX);
    assert_eq!(ns(g.start_time), 1_700_000_000_123_456_789);
    assert_eq!(ns(g.end_time), 1_700_000_000_123_456_789 + 987_654_321);
    let kv: Vec<_> = g.attributes.iter().map(|a| (a.key.as_str().to_string(), a.value.as_str().to_string())).collect();
    assert_eq!(kv, vec![("k".into(), "v".into()), ("k".into(), "w".into()), ("".to_string(), "".to_string())]);
    assert_eq!(g.events.events.len(), 1);
    assert_eq!(g.events.events[0].name, "e");
    assert_eq!(ns(g.events.events[0].timestamp), 1_700_000_000_223_456_789);
    assert_eq!(got[1].name, "b");
    assert_eq!(got[1].events.events.len(), 0);
}

/// start + duration is computed in u64 nanoseconds: a record near the top of the u64 range
/// panics the reporter (debug) or yields an end time before the start time (release),
/// and the rest of the batch is never exported.
#[test]
fn large_times_do_not_panic_and_keep_the_duration() {
    let store = Store::default();
    let begin = u64::MAX - 5;
    let recs = vec![
        SpanRecord { trace_id: TraceId(1), span_id: SpanId(1), name: "ordinary".into(), begin_time_unix_ns: 10, duration_ns: 5, ..Default::default() },
        SpanRecord { trace_id: TraceId(1), span_id: SpanId(2), name: "late".into(), begin_time_unix_ns: begin, duration_ns: 10, ..Default::default() },
    ];
    let mut rep = reporter(&store);
    let r = std::panic::catch_unwind(std::panic::AssertUnwindSafe(|| rep.report(recs)));
    let got = store.0.lock().unwrap().clone();
    assert!(r.is_ok(), "OpenTelemetryReporter::report panicked; {} of 2 records were exported", got.len());
    assert_eq!(got.len(), 2);
    let d = got[1].end_time.duration_since(got[1].start_time).expect("end before start");
    assert_eq!(d, Duration::from_nanos(10));
}
