// FINDING traceparent-plus-sign
// Property : C12 (traceparent and id text codecs round-trip and never panic)
// Clause   : "Decoding arbitrary text ... returns None whenever ... an id or flags field is not a hexadecimal
//            number that fits its width"
// Cause    : fastrace/src/collector/id.rs:297-299 (SpanContext::decode_w3c_traceparent) parses the three fields
//            with u128/u64/u8::from_str_radix(_, 16), which accept a leading '+' sign. '+' is not a hexadecimal
//            digit (W3C: 32HEXDIGLC / 16HEXDIGLC / 2HEXDIGLC), yet "00-+1-+2-+1" and a header whose first id
//            digit is replaced by '+' decode to Some(..). ('-' cannot occur inside a field because of the split.)
//            The same parsers back FromStr/Deserialize of TraceId and SpanId (id.rs:44,57,114,127).
// Run      : cp findings/traceparent-plus-sign.rs fastrace/tests/hunt_c12.rs &&
//            cargo test --offline --manifest-path fastrace/Cargo.toml --test hunt_c12
// Expected : decode_rejects_non_hex_fields FAILS; roundtrips (sanity, many other malformed inputs) passes.

use fastrace::prelude::*;

#[test]
fn decode_rejects_non_hex_fields() {
    // '+' is not a hexadecimal digit: every one of these must be rejected.
    for text in [
        "00-+af7651916cd43dd8448eb211c80319c-b7ad6b7169203331-01",
        "00-0af7651916cd43dd8448eb211c80319c-+7ad6b7169203331-01",
        "00-0af7651916cd43dd8448eb211c80319c-b7ad6b7169203331-+1",
        "00-+1-+2-+1",
    ] {
        let got = SpanContext::decode_w3c_traceparent(text);
        assert!(
            got.is_none(),
            "{text:?} has a field that is not a hexadecimal number but decoded to {got:?}"
        );
    }
}

/// Sanity (passes): round trips, fixed 55-character form, and the other malformed inputs are rejected.
#[test]
fn roundtrips() {
    for t in [0u128, 1, u128::MAX, 1 << 127, 1 << 64, 0xdead_beef] {
        for s in [0u64, 1, u64::MAX, 1 << 63, 0xabc] {
            for f in [false, true] {
                let c = SpanContext::new(TraceId(t), SpanId(s)).sampled(f);
                let e = c.encode_w3c_traceparent();
                assert_eq!(e.len(), 55);
                assert!(e.bytes().all(|b| b == b'-' || b.is_ascii_digit() || (b'a'..=b'f').contains(&b)));
                let d = SpanContext::decode_w3c_traceparent(&e).unwrap();
                assert_eq!((d.trace_id, d.span_id, d.sampled), (c.trace_id, c.span_id, c.sampled));
                assert_eq!(TraceId(t).to_string().parse::<TraceId>().unwrap(), TraceId(t));
                assert_eq!(SpanId(s).to_string().parse::<SpanId>().unwrap(), SpanId(s));
                assert_eq!(TraceId(t).to_string().len(), 32);
                assert_eq!(SpanId(s).to_string().len(), 16);
            }
        }
    }
    for text in ["", "-", "---", "----", "00---", "00-1-2", "00-1-2-3-4", "01-1-2-1", "00-g-1-1",
        "00-1-1-100", "00-100000000000000000000000000000000-1-1", "00-1-10000000000000000-1",
        "00-\u{e9}-1-1", "00-1-1-\u{1F600}", " 00-1-1-1", "00-1-1-1 ", "00-1-1-1\n", "00- 1-1-1", "00-0x1-1-1", "00-1_0-1-1"] {
        assert!(SpanContext::decode_w3c_traceparent(text).is_none(), "{text:?}");
    }
}
