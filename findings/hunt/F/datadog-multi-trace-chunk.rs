// FINDING datadog-multi-trace-chunk
// Property : C19 (Bundled reporters transmit records faithfully)
// Clause   : "The bytes sent are well-formed for the target protocol (... msgpack v0.4 trace array ...)"
//            and, as a consequence at the agent, "each record is transmitted exactly once".
// Cause    : fastrace-datadog/src/lib.rs:64-67 (DatadogReporter::serialize) writes the constant byte
//            0b1001_0001 (msgpack fixarray of length ONE) and then the flat array of ALL spans of the
//            batch; convert() (lib.rs:36-62) never groups by trace id. A v0.4 payload is an array of
//            traces, a trace being the array of the spans of one trace id. Whenever a report batch holds
//            spans of more than one trace (the normal case: the collector hands over everything committed
//            during one report interval), the payload claims "1 trace" whose spans disagree on trace_id.
//            The Datadog trace-agent rejects such a chunk as a whole (normalizeTrace: "trace has foreign
//            span (reason:foreign_span)"), i.e. every record of the batch is lost.
// Run      : cp findings/datadog-multi-trace-chunk.rs fastrace-datadog/tests/hunt_datadog.rs &&
//            cargo test --offline --manifest-path fastrace-datadog/Cargo.toml --test hunt_datadog
// Expected : spans_of_two_traces_go_into_two_trace_chunks FAILS; the two sanity tests pass.
// Uses only the public API: a one-shot local TCP listener plays the agent.

use std::borrow::Cow;
use std::collections::HashMap;
use std::io::Read;
use std::io::Write;
use std::net::TcpListener;

use fastrace::collector::Reporter;
use fastrace::prelude::*;
use fastrace_datadog::DatadogReporter;

#[derive(serde::Deserialize, Debug)]
#[allow(dead_code)]
struct DdSpan {
    name: String,
    service: String,
    #[serde(rename = "type")]
    trace_type: String,
    resource: String,
    start: i64,
    duration: i64,
    #[serde(default)]
    meta: HashMap<String, String>,
    span_id: u64,
    trace_id: u64,
    parent_id: u64,
}

/// Runs a one-shot HTTP server standing in for the Datadog agent, reports `batch` to it and
/// returns the request line and the decoded v0.4 payload: an array of traces, each an array of spans.
fn run(batch: Vec<SpanRecord>) -> (String, Vec<Vec<DdSpan>>) {
    let listener = TcpListener::bind("127.0.0.1:0").unwrap();
    let addr = listener.local_addr().unwrap();
    let h = std::thread::spawn(move || {
        let (mut s, _) = listener.accept().unwrap();
        let mut buf = vec![];
        let mut tmp = [0u8; 4096];
        let (head_end, len) = loop {
            let n = s.read(&mut tmp).unwrap();
            assert!(n > 0);
            buf.extend_from_slice(&tmp[..n]);
            if let Some(p) = buf.windows(4).position(|w| w == b"\r\n\r\n") {
                let head = String::from_utf8_lossy(&buf[..p]).to_lowercase();
                let len: usize = head
                    .lines()
                    .find_map(|l| l.strip_prefix("content-length:"))
                    .expect("content-length")
                    .trim()
                    .parse()
                    .unwrap();
                break (p + 4, len);
            }
        };
        while buf.len() < head_end + len {
            let n = s.read(&mut tmp).unwrap();
            assert!(n > 0);
            buf.extend_from_slice(&tmp[..n]);
        }
        s.write_all(b"HTTP/1.1 200 OK\r\nContent-Length: 2\r\nConnection: close\r\n\r\n{}").unwrap();
        let line = String::from_utf8_lossy(&buf[..head_end]).lines().next().unwrap().to_string();
        (line, buf[head_end..head_end + len].to_vec())
    });
    let mut rep = DatadogReporter::new(addr, "svc", "res", "web");
    rep.report(batch);
    let (line, body) = h.join().unwrap();
    let traces: Vec<Vec<DdSpan>> = rmp_serde::from_slice(&body).expect("msgpack v0.4: array of arrays of span maps");
    (line, traces)
}

fn rec(trace: u128, span: u64, parent: u64, name: &'static str) -> SpanRecord {
    SpanRecord {
        trace_id: TraceId(trace),
        span_id: SpanId(span),
        parent_id: SpanId(parent),
        begin_time_unix_ns: 1_700_000_000_000_000_000,
        duration_ns: 1234,
        name: Cow::Borrowed(name),
        properties: vec![(Cow::Borrowed("k"), Cow::Borrowed("v"))],
        events: vec![],
    }
}

/// Sanity: one trace, ids with the top bit set, is transmitted faithfully (this passes).
#[test]
fn single_trace_is_faithful() {
    let (line, traces) = run(vec![
        rec(0xffff_0000_0000_0000_8000_0000_0000_0001, u64::MAX, 0, "root"),
        rec(0xffff_0000_0000_0000_8000_0000_0000_0001, 1 << 63, u64::MAX, "child"),
    ]);
    assert!(line.starts_with("POST /v0.4/traces"), "{line}");
    assert_eq!(traces.len(), 1);
    let t = &traces[0];
    assert_eq!(t.len(), 2);
    assert_eq!((t[0].trace_id, t[0].span_id, t[0].parent_id), (0x8000_0000_0000_0001, u64::MAX, 0));
    assert_eq!((t[1].trace_id, t[1].span_id, t[1].parent_id), (0x8000_0000_0000_0001, 1 << 63, u64::MAX));
    assert_eq!(t[1].name, "child");
    assert_eq!(t[1].start, 1_700_000_000_000_000_000);
    assert_eq!(t[1].duration, 1234);
    assert_eq!(t[1].meta.get("k").map(String::as_str), Some("v"));
}

/// A v0.4 payload is an array of TRACES; a trace is the array of the spans of ONE trace id.
/// The agent drops a trace chunk whose spans disagree on trace_id ("foreign span").
#[test]
fn spans_of_two_traces_go_into_two_trace_chunks() {
    let (_, traces) = run(vec![
        rec(1, 10, 0, "root-of-trace-1"),
        rec(2, 20, 0, "root-of-trace-2"),
        rec(1, 11, 10, "child-in-trace-1"),
    ]);
    let total: usize = traces.iter().map(Vec::len).sum();
    assert_eq!(total, 3, "every record transmitted exactly once");
    for (i, chunk) in traces.iter().enumerate() {
        let first = chunk[0].trace_id;
        for s in chunk {
            assert_eq!(
                s.trace_id, first,
                "trace chunk #{i} of the v0.4 payload mixes trace ids: span {:?} (trace {}) sits in the chunk of trace {}",
                s.name, s.trace_id, first
            );
        }
    }
}

/// Sanity (passes): records without properties, empty and non-ASCII strings, duplicate keys, a large batch.
#[test]
fn odd_records_single_trace() {
    let mut batch = vec![];
    for i in 0..3000u64 {
        let mut r = rec(5, i + 1, i, if i % 2 == 0 { "" } else { "é✓𝄞\0" });
        if i % 3 == 0 {
            r.properties.clear();
        } else if i % 3 == 1 {
            r.properties = vec![("".into(), "".into()), ("d".into(), "1".into()), ("d".into(), "2".into())];
        }
        r.begin_time_unix_ns = i;
        r.duration_ns = 0;
        batch.push(r);
    }
    let (_, traces) = run(batch.clone());
    assert_eq!(traces.len(), 1);
    assert_eq!(traces[0].len(), 3000);
    for (g, w) in traces[0].iter().zip(&batch) {
        assert_eq!(g.name, w.name);
        assert_eq!((g.trace_id, g.span_id, g.parent_id), (5, w.span_id.0, w.parent_id.0));
        assert_eq!((g.start, g.duration), (w.begin_time_unix_ns as i64, 0));
        let want: HashMap<String, String> = w.properties.iter().map(|(k, v)| (k.to_string(), v.to_string())).collect();
        assert_eq!(g.meta, want);
        assert_eq!((g.service.as_str(), g.resource.as_str(), g.trace_type.as_str()), ("svc", "res", "web"));
    }
}
