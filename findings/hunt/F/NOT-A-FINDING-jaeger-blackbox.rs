// NOT A FINDING - supporting evidence for C19 (Jaeger part) and C20.
// Black-box test of JaegerReporter through a local UDP socket; every datagram is decoded with
// thrift_codec's compact decoder and compared with the records. All three tests PASS on the unchanged code
// (boundary sweep of a single span across 8000 bytes; 1..5000 small spans incl. list sizes 14/15/16;
// 60 random batches mixing oversize, boundary, half-size and small spans; ids with the top bit set, empty
// and non-ASCII strings, 0 / u64::MAX times). Slow (~18 min) because each span is also sent alone.
// Run      : cp findings/NOT-A-FINDING-jaeger-blackbox.rs fastrace-jaeger/tests/hunt_jaeger.rs &&
//            cargo test --offline --manifest-path fastrace-jaeger/Cargo.toml --test hunt_jaeger

use std::borrow::Cow;
use std::net::UdpSocket;
use std::sync::mpsc;
use std::time::Duration;

use fastrace::collector::EventRecord;
use fastrace::collector::Reporter;
use fastrace::prelude::*;
use fastrace_jaeger::JaegerReporter;
use thrift_codec::CompactDecode;
use thrift_codec::data::Data;
use thrift_codec::data::DataRef;
use thrift_codec::data::Struct;
use thrift_codec::message::Message;

#[derive(Debug, PartialEq, Clone)]
struct Got {
    lo: i64,
    hi: i64,
    id: i64,
    parent: i64,
    name: String,
    start: i64,
    dur: i64,
    tags: Vec<(String, String)>,
    logs: Vec<(i64, Vec<(String, String)>)>,
}

fn field<'a>(s: &'a Struct, id: i16) -> Option<&'a Data> {
    s.fields().iter().find(|f| f.id() == id).map(|f| f.data())
}
fn i64f(s: &Struct, id: i16) -> i64 {
    match field(s, id) {
        Some(Data::I64(v)) => *v,
        x => panic!("field {id}: {x:?}"),
    }
}
fn strf(s: &Struct, id: i16) -> String {
    match field(s, id) {
        Some(Data::Binary(v)) => String::from_utf8(v.clone()).unwrap(),
        x => panic!("field {id}: {x:?}"),
    }
}
fn structs(s: &Struct, id: i16) -> Vec<Struct> {
    match field(s, id) {
        None => vec![],
        Some(Data::List(l)) => l
            .iter()
            .map(|e| match e {
                DataRef::Struct(s) => s.clone(),
                x => panic!("{x:?}"),
            })
            .collect(),
        x => panic!("field {id}: {x:?}"),
    }
}
fn tags(v: Vec<Struct>) -> Vec<(String, String)> {
    v.iter()
        .map(|t| {
            assert!(matches!(field(t, 2), Some(Data::I32(0))));
            (strf(t, 1), strf(t, 3))
        })
        .collect()
}

fn decode(dgram: &[u8]) -> Vec<Got> {
    let mut rd = dgram;
    let msg = Message::compact_decode(&mut rd).expect("well-formed compact message");
    assert!(rd.is_empty(), "trailing bytes");
    assert_eq!(msg.method_name(), "emitBatch");
    let batch = match field(msg.body(), 1) {
        Some(Data::Struct(b)) => b.clone(),
        x => panic!("{x:?}"),
    };
    match field(&batch, 1) {
        Some(Data::Struct(p)) => assert_eq!(strf(p, 1), "svc"),
        x => panic!("{x:?}"),
    }
    structs(&batch, 2)
        .iter()
        .map(|s| Got {
            lo: i64f(s, 1),
            hi: i64f(s, 2),
            id: i64f(s, 3),
            parent: i64f(s, 4),
            name: strf(s, 5),
            start: i64f(s, 8),
            dur: i64f(s, 9),
            tags: tags(structs(s, 10)),
            logs: structs(s, 11)
                .iter()
                .map(|l| (i64f(l, 1), tags(structs(l, 2))))
                .collect(),
        })
        .collect()
}

fn expect(r: &SpanRecord) -> Got {
    let kv = |p: &Vec<(Cow<'static, str>, Cow<'static, str>)>| {
        p.iter().map(|(k, v)| (k.to_string(), v.to_string())).collect::<Vec<_>>()
    };
    Got {
        lo: r.trace_id.0 as u64 as i64,
        hi: (r.trace_id.0 >> 64) as u64 as i64,
        id: r.span_id.0 as i64,
        parent: r.parent_id.0 as i64,
        name: r.name.to_string(),
        start: (r.begin_time_unix_ns / 1000) as i64,
        dur: (r.duration_ns / 1000) as i64,
        tags: kv(&r.properties),
        logs: r
            .events
            .iter()
            .map(|e| {
                let mut f = vec![("name".to_string(), e.name.to_string())];
                f.extend(kv(&e.properties));
                ((e.timestamp_unix_ns / 1000) as i64, f)
            })
            .collect(),
    }
}

/// Sends `batch` through a JaegerReporter to a local UDP socket and returns the datagrams.
fn run(batch: Vec<SpanRecord>) -> Vec<Vec<u8>> {
    let sock = UdpSocket::bind("127.0.0.1:0").unwrap();
    sock.set_read_timeout(Some(Duration::from_millis(50))).unwrap();
    let addr = sock.local_addr().unwrap();
    let (stop_tx, stop_rx) = mpsc::channel::<()>();
    let h = std::thread::spawn(move || {
        let mut out = vec![];
        let mut buf = vec![0u8; 70000];
        let mut idle_after_stop = 0;
        loop {
            match sock.recv_from(&mut buf) {
                Ok((n, _)) => out.push(buf[..n].to_vec()),
                Err(_) => {
                    if stop_rx.try_recv().is_ok() || idle_after_stop > 0 {
                        idle_after_stop += 1;
                        if idle_after_stop >= 3 {
                            return out;
                        }
                    }
                }
            }
        }
    });
    let mut rep = JaegerReporter::new(addr, "svc").unwrap();
    rep.report(batch);
    stop_tx.send(()).unwrap();
    h.join().unwrap()
}

fn single_size(r: &SpanRecord) -> usize {
    let d = run(vec![r.clone()]);
    // an oversize span yields no datagram: measure with a short name then add
    if d.len() == 1 { d[0].len() } else { usize::MAX }
}

fn check(batch: Vec<SpanRecord>) {
    // which spans fit alone? (measured by really sending them alone: black box)
    let mut fits = vec![];
    for r in &batch {
        fits.push(single_size(r) < 8000);
    }
    let dgrams = run(batch.clone());
    let mut got = vec![];
    for d in &dgrams {
        assert!(d.len() < 8000, "datagram of {} bytes", d.len());
        got.extend(decode(d));
    }
    let want: Vec<Got> = batch.iter().zip(&fits).filter(|(_, f)| **f).map(|(r, _)| expect(r)).collect();
    assert_eq!(got.len(), want.len(), "span count (batch {})", batch.len());
    for (i, (g, w)) in got.iter().zip(&want).enumerate() {
        assert_eq!(g, w, "span #{i}");
    }
}

struct Lcg(u64);
impl Lcg {
    fn next(&mut self) -> u64 {
        self.0 = self.0.wrapping_mul(6364136223846793005).wrapping_add(1442695040888963407);
        self.0 >> 11
    }
}

fn rec(i: u64, name_len: usize, rng: &mut Lcg) -> SpanRecord {
    let ids = [0u64, 1, u64::MAX, 1 << 63, 0x8000_0000_0000_0001, rng.next() << 11 | 5];
    let pick = |r: &mut Lcg| ids[(r.next() % ids.len() as u64) as usize];
    let strs = ["", "k", "é✓𝄞", "a b\n\0"];
    let s = |r: &mut Lcg| Cow::Borrowed(strs[(r.next() % 4) as usize]);
    let nprops = (rng.next() % 4) as usize;
    let nev = (rng.next() % 3) as usize;
    SpanRecord {
        trace_id: TraceId(((pick(rng) as u128) << 64) | pick(rng) as u128),
        span_id: SpanId(i + 1),
        parent_id: SpanId(pick(rng)),
        begin_time_unix_ns: [0, 999, 1000, 1_700_000_000_123_456_789, u64::MAX][(rng.next() % 5) as usize],
        duration_ns: [0, 1, 1999, u64::MAX][(rng.next() % 4) as usize],
        name: Cow::Owned("n".repeat(name_len)),
        properties: (0..nprops).map(|_| (s(rng), s(rng))).collect(),
        events: (0..nev)
            .map(|_| EventRecord {
                name: s(rng),
                timestamp_unix_ns: rng.next(),
                properties: (0..(rng.next() % 3)).map(|_| (s(rng), s(rng))).collect(),
            })
            .collect(),
    }
}

#[test]
fn boundary_single_spans() {
    let mut rng = Lcg(1);
    // sweep the name length across the 8000-byte boundary
    for len in 7800..8010 {
        let mut r = rec(0, len, &mut rng);
        r.properties.clear();
        r.events.clear();
        let d = run(vec![r.clone()]);
        assert!(d.len() <= 1);
        if let Some(d) = d.first() {
            assert!(d.len() < 8000);
            assert_eq!(decode(d), vec![expect(&r)]);
        }
    }
}

#[test]
fn many_small_spans() {
    let mut rng = Lcg(7);
    for n in [1usize, 2, 14, 15, 16, 100, 127, 128, 129, 1000, 5000] {
        let batch = (0..n as u64).map(|i| rec(i, (rng.next() % 40) as usize, &mut rng)).collect();
        check(batch);
    }
}

#[test]
fn random_mixed_batches() {
    let mut rng = Lcg(42);
    for round in 0..60 {
        let n = 1 + (rng.next() % 40) as usize;
        let batch: Vec<_> = (0..n as u64)
            .map(|i| {
                let len = match rng.next() % 10 {
                    0 => 8100 + (rng.next() % 100) as usize, // oversize
                    1 => 7900 + (rng.next() % 120) as usize, // around the boundary
                    2 | 3 => 3900 + (rng.next() % 200) as usize, // two of them straddle
                    4 => 2600 + (rng.next() % 100) as usize,
                    _ => (rng.next() % 50) as usize,
                };
                rec(i, len, &mut rng)
            })
            .collect();
        eprintln!("round {round}: {n} spans");
        check(batch);
    }
}
