// Property C07 (Tracing calls never panic, block or deadlock the host)
// Violated clause: "Every public tracing call returns normally, without panicking ... The only
//   precondition is that thread-local guards and local spans are released in reverse order of
//   creation on their own thread."
//
// Cause: LocalSpan::with_property / with_properties (fastrace/src/local/local_span.rs:91-105) can
//   be called at any time during the life of the LocalSpan (it takes and returns `self`). It is
//   forwarded to LocalSpanStack::with_properties (fastrace/src/local/local_span_stack.rs:111-129),
//   which looks only at the CURRENT span line and asserts
//       debug_assert_eq!(span_line.span_line_epoch(), local_span_handle.span_line_epoch)
//   (local_span_stack.rs:123-126). If a nested scope has been opened since the LocalSpan was
//   created (Span::set_local_parent, LocalCollector::start, an in_span future being polled ...),
//   the current line is not the LocalSpan's line and the call panics in every build with debug
//   assertions (dev / test profile). All guards below are released in strict reverse order of
//   creation, so the stated precondition holds. (With debug assertions off the property is
//   silently discarded instead, SpanLine::with_properties local_span_line.rs:98.)
//
// The first panic happens while `with_properties` owns the LocalSpan; unwinding drops it, which
// trips the sibling assertion in LocalSpanStack::exit_span (local_span_stack.rs:45-48) => panic
// inside a destructor during cleanup => the PROCESS ABORTS. The test therefore runs the scenario
// in a child process (itself, re-executed) and checks its exit status.
//
// Run (from /tmp/hunt-C):
//   cp findings/with_properties_nested_scope.rs fastrace/tests/hunt_with_properties_nested_scope.rs && \
//   cargo test --offline --manifest-path fastrace/Cargo.toml --test hunt_with_properties_nested_scope

use std::time::Duration;

use fastrace::collector::Config;
use fastrace::collector::TestReporter;
use fastrace::local::LocalCollector;
use fastrace::prelude::*;

fn scenario() {
    let (reporter, _spans) = TestReporter::new();
    fastrace::set_reporter(
        reporter,
        Config::default().report_interval(Duration::from_secs(3600)),
    );

    let root = Span::root("root", SpanContext::new(TraceId(1), SpanId(0)));
    let g_root = root.set_local_parent();

    let outer = LocalSpan::enter_with_local_parent("outer");

    // A nested scope is opened (a detached collector here; a child Span made the local parent
    // behaves the same) ...
    let nested = LocalCollector::start();
    // ... and while it is open a result is recorded on the still-living `outer` span.
    let outer = outer.with_property(|| ("result", "ok"));

    // strict reverse order of creation
    drop(nested);
    drop(outer);
    drop(g_root);
    drop(root);
}

#[test]
fn local_span_with_property_while_nested_scope_is_open() {
    if std::env::var_os("HUNT_CHILD").is_some() {
        scenario();
        return;
    }

    let out = std::process::Command::new(std::env::current_exe().unwrap())
        .args([
            "--exact",
            "local_span_with_property_while_nested_scope_is_open",
            "--nocapture",
        ])
        .env("HUNT_CHILD", "1")
        .env("RUST_BACKTRACE", "0")
        .output()
        .unwrap();
    let stderr = String::from_utf8_lossy(&out.stderr);
    let panics: Vec<&str> = stderr
        .lines()
        .filter(|l| l.contains("panicked at") || l.contains("abort"))
        .collect();
    assert!(
        out.status.success(),
        "C07 violated: LocalSpan::with_property with all guards released in reverse order ended the \
         process with {:?}: {:#?}",
        out.status,
        panics
    );
}
