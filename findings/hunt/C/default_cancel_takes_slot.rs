// Property C04 (cancel() suppresses the whole trace and nothing else)
// Violated clause: "any cancel() in the default configuration changes nothing about what is
//   delivered" (quantified over "all queue-full episodes around the cancel/finish pair").
// Severity: low (needs a nearly full queue), but it is a literal violation.
//
// Cause: in the default (non-cancelable) configuration Span::cancel still force-sends a
//   DropCollect command (fastrace/src/span.rs:449-456 -> global_collector.rs:140-142); only the
//   collector ignores it (global_collector.rs:302-307). The command occupies a slot of the
//   thread's bounded queue (or, when the queue is full, is parked and later pushed ahead of the
//   next command, spsc.rs:37-46), so the next span set submitted by the thread finds the queue
//   full and is dropped (global_collector.rs:54-58), whereas without the (supposedly inert)
//   cancel() it would have been delivered.
//
// Run (from /tmp/hunt-C):
//   cp findings/default_cancel_takes_slot.rs fastrace/tests/hunt_default_cancel_takes_slot.rs && \
//   cargo test --offline --manifest-path fastrace/Cargo.toml --test hunt_default_cancel_takes_slot

use std::time::Duration;

use fastrace::collector::Config;
use fastrace::collector::TestReporter;
use fastrace::prelude::*;

fn run(with_cancel: bool, probe: &'static str) {
    std::thread::spawn(move || {
        // 1 StartCollect + 10238 events = 10239 of the 10240 slots.
        let root = Span::root("root", SpanContext::new(TraceId(1), SpanId(0)));
        for _ in 0..10238 {
            root.add_event(Event::new("fill"));
        }
        if with_cancel {
            root.cancel(); // documented as a no-op in the default configuration
        }
        drop(Span::enter_with_parent(probe, &root));
        drop(root);
    })
    .join()
    .unwrap();
    fastrace::flush();
}

#[test]
fn cancel_in_default_configuration_changes_what_is_delivered() {
    let (reporter, spans) = TestReporter::new();
    fastrace::set_reporter(
        reporter,
        Config::default().report_interval(Duration::from_secs(3600)),
    );
    // Let the background collector finish its first (immediate) cycle; it then sleeps for 1h.
    std::thread::sleep(Duration::from_millis(500));
    fastrace::flush();

    run(false, "probe-without-cancel");
    run(true, "probe-with-cancel");

    let spans = spans.lock().clone();
    let without = spans.iter().any(|s| s.name == "probe-without-cancel");
    let with = spans.iter().any(|s| s.name == "probe-with-cancel");
    assert!(without, "control: the probe fits into the last free slot");
    assert_eq!(
        with, without,
        "C04 violated: the same program delivers the probe span without cancel() ({without}) but not with \
         cancel() ({with}) in the default configuration"
    );
}
