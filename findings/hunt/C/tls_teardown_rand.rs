// Property C07 (Tracing calls never panic, block or deadlock the host)
// Violated clause: "Every public tracing call returns normally, without panicking ... in every
//   state: ... and calls made while the thread's local storage is being torn down"
//   (quantified over "re-entrant ones issued from ... thread-local destructors").
//
// Cause: fastrace/src/collector/id.rs:12  the lazy initialiser of LOCAL_ID_GENERATOR calls
//   `rand::random()`, and id.rs:100 the fallback of SpanId::next_id() calls `rand::random()`
//   again; id.rs:30 / id.rs:78 (TraceId::random / SpanId::random, used by SpanContext::random
//   at id.rs:174) do the same. rand 0.9 implements this as `THREAD_RNG_KEY.with(..)`
//   (rand-0.9.0/src/rngs/thread.rs:158), which PANICS once rand's own thread-local has been
//   destroyed. std runs TLS destructors in reverse order of registration, so any user
//   thread-local that was initialised before the thread's first use of rand is destroyed after
//   rand's key. A tracing call made from that destructor panics; a panic that escapes a TLS
//   destructor aborts the whole process ("fatal runtime error: thread local panicked on drop").
//   Every other TLS access in the crate uses try_with; these do not.
//
// Two calls are shown:
//   (a) the canonical `Span::root("x", SpanContext::random())`            -> panics in TraceId::random
//   (b) `Span::root("x", SpanContext::new(..))` (no explicit randomness)  -> panics in
//       SpanId::next_id, because LOCAL_ID_GENERATOR is initialised lazily (the thread had only
//       produced a SpanContext before, never a span).
// The test catches the panic inside the destructor (otherwise the test process would abort).
//
// Run (from /tmp/hunt-C):
//   cp findings/tls_teardown_rand.rs fastrace/tests/hunt_tls_teardown_rand.rs && \
//   cargo test --offline --manifest-path fastrace/Cargo.toml --test hunt_tls_teardown_rand

use std::sync::Mutex;
use std::time::Duration;

use fastrace::collector::Config;
use fastrace::collector::TestReporter;
use fastrace::prelude::*;

static OUTCOME: Mutex<Vec<(&'static str, Result<(), String>)>> = Mutex::new(Vec::new());

struct TraceOnExit(&'static str);

impl Drop for TraceOnExit {
    fn drop(&mut self) {
        let which = self.0;
        let res = std::panic::catch_unwind(|| {
            if which == "random-context" {
                let root = Span::root("at-exit", SpanContext::random());
                drop(root);
            } else {
                let root = Span::root("at-exit", SpanContext::new(TraceId(7), SpanId(0)));
                drop(root);
            }
        });
        let res = res.map_err(|e| {
            e.downcast_ref::<String>()
                .cloned()
                .or_else(|| e.downcast_ref::<&str>().map(|s| s.to_string()))
                .unwrap_or_default()
        });
        OUTCOME.lock().unwrap().push((which, res));
    }
}

thread_local! {
    static AT_EXIT_A: TraceOnExit = const { TraceOnExit("random-context") };
    static AT_EXIT_B: TraceOnExit = const { TraceOnExit("explicit-context") };
}

#[test]
fn tracing_call_in_tls_destructor_panics() {
    let (reporter, _spans) = TestReporter::new();
    fastrace::set_reporter(
        reporter,
        Config::default().report_interval(Duration::from_secs(3600)),
    );

    // (a) the thread creates one span with a random context, then exits.
    std::thread::spawn(|| {
        AT_EXIT_A.with(|_| ()); // user TLS registered first => destroyed last
        let root = Span::root("work", SpanContext::random());
        drop(root);
    })
    .join()
    .unwrap();

    // (b) the thread only makes a SpanContext (e.g. to hand it to another thread), then exits.
    std::thread::spawn(|| {
        AT_EXIT_B.with(|_| ());
        let _ctx = SpanContext::random();
    })
    .join()
    .unwrap();

    let outcome = OUTCOME.lock().unwrap().clone();
    assert_eq!(outcome.len(), 2, "both destructors ran");
    let failed: Vec<_> = outcome.iter().filter(|(_, r)| r.is_err()).collect();
    assert!(
        failed.is_empty(),
        "C07 violated: tracing calls issued from a thread-local destructor panicked: {:?}",
        failed
    );
}
