// Property C09 (Overload degrades by omission only)
// Violated clauses: "the only effect is that span sets ... may be missing", "the excess local
//   spans are skipped and the recorded ones keep their correct parents", "every record that is
//   delivered is still correct".
//
// Cause: when the per-thread scope stack is at its limit (4096 span lines),
//   LocalSpanStack::register_span_line returns None (fastrace/src/local/local_span_stack.rs:71-73)
//   and LocalCollector::new silently yields a collector without a span line
//   (fastrace/src/local/local_collector.rs:137-147), so Span::set_local_parent /
//   LocalCollector::start return a guard that opened NO scope. Every later local operation is
//   routed through LocalSpanStack::current_span_line = span_lines.last_mut()
//   (local_span_stack.rs:137-139), i.e. the ENCLOSING scope, which belongs to whatever span was
//   the local parent before. The local spans / events / child Spans the user created under the
//   new parent are therefore not skipped: they are recorded and delivered as descendants of the
//   enclosing scope's parent, in the enclosing scope's trace, and
//   SpanContext::current_local_parent() reports the wrong trace.
//
// Run (from /tmp/hunt-C):
//   cp findings/scope_limit_misattribution.rs fastrace/tests/hunt_scope_limit_misattribution.rs && \
//   cargo test --offline --manifest-path fastrace/Cargo.toml --test hunt_scope_limit_misattribution

use std::time::Duration;

use fastrace::collector::Config;
use fastrace::collector::TestReporter;
use fastrace::local::LocalCollector;
use fastrace::prelude::*;

#[test]
fn scope_beyond_stack_limit_leaks_into_enclosing_trace() {
    let (reporter, spans) = TestReporter::new();
    fastrace::set_reporter(
        reporter,
        Config::default().report_interval(Duration::from_secs(3600)),
    );

    let trace_a = TraceId(0xA);
    let trace_b = TraceId(0xB);

    let root_a = Span::root("root-a", SpanContext::new(trace_a, SpanId(0)));
    let root_b = Span::root("root-b", SpanContext::new(trace_b, SpanId(0)));

    // Recursion 4096 deep, each level making its span the local parent (what #[trace] /
    // in_span do on every nested call / poll).
    let mut guards = Vec::new();
    for _ in 0..4096 {
        guards.push(root_a.set_local_parent());
    }

    let seen_parent;
    {
        // One level deeper the code switches to work on behalf of trace B.
        let _g = root_b.set_local_parent();
        seen_parent = SpanContext::current_local_parent().map(|c| c.trace_id);
        let _l = LocalSpan::enter_with_local_parent("local-work-for-b");
        LocalSpan::add_event(Event::new("event-for-b"));
        let _s = Span::enter_with_local_parent("span-work-for-b");
    }
    {
        // Same with a detached collector whose spans are then attached to root-b.
        let c = LocalCollector::start();
        {
            let _l = LocalSpan::enter_with_local_parent("collected-for-b");
        }
        root_b.push_child_spans(c.collect());
    }

    // Guards are released in reverse order of creation.
    while let Some(g) = guards.pop() {
        drop(g);
    }
    drop(root_b);
    drop(root_a);
    fastrace::flush();

    let spans = spans.lock().clone();
    assert!(spans.iter().any(|s| s.name == "root-a"));
    assert!(spans.iter().any(|s| s.name == "root-b"));

    let wrong: Vec<String> = spans
        .iter()
        .filter(|s| s.name.ends_with("-for-b") && s.trace_id != trace_b)
        .map(|s| format!("{} delivered in trace {} parent {}", s.name, s.trace_id, s.parent_id))
        .chain(
            spans
                .iter()
                .filter(|s| s.trace_id != trace_b)
                .flat_map(|s| s.events.iter().map(move |e| (s, e)))
                .filter(|(_, e)| e.name.ends_with("-for-b"))
                .map(|(s, e)| format!("{} delivered on span {} of trace {}", e.name, s.name, s.trace_id)),
        )
        .collect();

    assert!(
        wrong.is_empty() && seen_parent != Some(trace_a),
        "C09 violated: beyond the scope limit work done for trace B is not skipped but delivered in trace A: \
         current_local_parent -> {:?}; {:#?}",
        seen_parent,
        wrong
    );
}
