// Property C09 (Overload degrades by omission only)
// Violated clauses: "the only effect is that span sets submitted by that thread WHILE IT WAS FULL
//   may be missing (in cancelable mode a trace started at such a moment may be missing entirely)",
//   "every record that is delivered is still correct".
//
// Cause (default, non-cancelable configuration): Span::root sends StartCollect with the lossy
//   send_command (fastrace/src/collector/global_collector.rs:130-134, 54-58). If the thread's
//   queue is full at that instant the StartCollect is dropped, and for the whole remaining life
//   of that trace the collector has no ActiveCollector entry for its collect_id. Every span set
//   of the trace - also those submitted long after the queue has drained - then takes the
//   "stale" path (global_collector.rs:326-331 / 345-350) and is post-processed on its own with a
//   throw-away dangling map (global_collector.rs:381-388: `&mut HashMap::new()`). Events and
//   properties added through a Span handle (Span::add_event / Span::add_property(ies),
//   span.rs:320-359) travel as separate span sets that must meet their span's record in
//   ActiveCollector::danglings; on the stale path they never meet it and are silently discarded.
//   The span's record IS delivered (so this is not the allowed "missing span set"), but without
//   the events and properties that were accepted while the queue was empty.
//
// Run (from /tmp/hunt-C):
//   cp findings/lost_start_drops_events.rs fastrace/tests/hunt_lost_start_drops_events.rs && \
//   cargo test --offline --manifest-path fastrace/Cargo.toml --test hunt_lost_start_drops_events

use std::time::Duration;

use fastrace::collector::Config;
use fastrace::collector::TestReporter;
use fastrace::prelude::*;

#[test]
fn trace_started_while_full_loses_later_events_and_properties() {
    let (reporter, spans) = TestReporter::new();
    fastrace::set_reporter(
        reporter,
        Config::default().report_interval(Duration::from_secs(3600)),
    );
    // Let the background collector finish its first (immediate) cycle; it then sleeps for 1h.
    std::thread::sleep(Duration::from_millis(500));
    fastrace::flush();

    // Fill this thread's command queue (10240 slots): 1 StartCollect + 10239 events.
    let filler = Span::root("filler", SpanContext::new(TraceId(1), SpanId(0)));
    for _ in 0..10239 {
        filler.add_event(Event::new("fill"));
    }

    // A trace started at this moment: its StartCollect is dropped.
    let root = Span::root("root", SpanContext::new(TraceId(2), SpanId(0)));

    // The queue drains completely.
    fastrace::flush();

    // Everything below is submitted while the queue is (almost) empty.
    root.add_event(Event::new("after-drain-event"));
    root.add_property(|| ("after-drain-key", "v"));
    let child = Span::enter_with_parent("child", &root);
    child.add_event(Event::new("child-event"));
    drop(child);
    drop(root);
    drop(filler);
    fastrace::flush();

    let spans = spans.lock().clone();
    let root = spans
        .iter()
        .find(|s| s.name == "root")
        .expect("root record is delivered in the default configuration");
    let child = spans
        .iter()
        .find(|s| s.name == "child")
        .expect("child record is delivered in the default configuration");
    assert_eq!(root.trace_id, TraceId(2));
    assert_eq!(child.parent_id, root.span_id);

    assert!(
        root.events.iter().any(|e| e.name == "after-drain-event")
            && root.properties.iter().any(|(k, _)| k == "after-drain-key")
            && child.events.iter().any(|e| e.name == "child-event"),
        "C09 violated: records delivered without the events/properties submitted after the queue had drained: \
         root.events={:?} root.properties={:?} child.events={:?}",
        root.events,
        root.properties,
        child.events
    );
}
