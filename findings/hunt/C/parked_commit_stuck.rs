// Property C09 (Overload degrades by omission only)
// Violated clauses: "the only effect is that span sets submitted by that thread while it was full
//   may be missing", "Finish and cancel signals are neither dropped nor reordered while the thread
//   lives".
//
// Cause: a CommitCollect / DropCollect issued while the queue is full is parked in
//   Sender::pending_messages (fastrace/src/util/spsc.rs:48-60). Parked commands are only moved
//   into the ring as a side effect of the NEXT send/force_send on the same thread
//   (spsc.rs:37-46, 48-56) or when the thread exits (spsc.rs:63-69). Nothing flushes them when the
//   collector drains the ring: not the collector cycle, not flush(). A thread that finishes a root
//   during a full-queue episode and then makes no further tracing call (an idle pool worker, the
//   main thread waiting on a join) keeps the finish signal forever although the queue has long
//   drained. With cancelable(true) the whole trace - including all span sets that were accepted
//   BEFORE the queue became full - is then never delivered (global_collector.rs:359-368 is the
//   only place a cancelable trace is released); in the default configuration the ActiveCollector
//   entry and its dangling events leak.
//
// Run (from /tmp/hunt-C):
//   cp findings/parked_commit_stuck.rs fastrace/tests/hunt_parked_commit_stuck.rs && \
//   cargo test --offline --manifest-path fastrace/Cargo.toml --test hunt_parked_commit_stuck

use std::time::Duration;

use fastrace::collector::Config;
use fastrace::collector::TestReporter;
use fastrace::prelude::*;

#[test]
fn finish_signal_parked_during_overload_is_never_sent_by_idle_thread() {
    let (reporter, spans) = TestReporter::new();
    fastrace::set_reporter(
        reporter,
        Config::default()
            .cancelable(true)
            .report_interval(Duration::from_secs(3600)),
    );
    // Let the background collector finish its first (immediate) cycle; it then sleeps for 1h.
    std::thread::sleep(Duration::from_millis(500));
    fastrace::flush();

    // 1 StartCollect + 10239 child span sets fill the 10240-slot queue; all of them are accepted.
    let root = Span::root("root", SpanContext::new(TraceId(1), SpanId(0)));
    for _ in 0..10239 {
        drop(Span::enter_with_parent("child", &root));
    }
    // Finished while full: the root's own span set may be lost (allowed); CommitCollect is parked.
    drop(root);

    // The collector drains the queue - several times. The thread is alive and simply idle.
    fastrace::flush();
    fastrace::flush();
    fastrace::flush();
    let delivered_while_idle = spans.lock().len();

    // Any unrelated tracing call un-parks the commit as a side effect.
    drop(Span::root("unrelated", SpanContext::new(TraceId(2), SpanId(0))));
    fastrace::flush();
    let delivered_after_unrelated_call = spans
        .lock()
        .iter()
        .filter(|s| s.trace_id == TraceId(1))
        .count();

    assert!(
        delivered_while_idle >= 10239,
        "C09 violated: the queue was drained 3 times but the finish signal is still parked on the \
         (living, idle) thread: {} of the 10239 accepted child records delivered; after an unrelated \
         tracing call on that thread: {}",
        delivered_while_idle,
        delivered_after_unrelated_call
    );
}
