// D2 (C04, C09): the overflow list of util::spsc::Sender is replayed last-in-first-out and a
// new forced value can overtake it, so finish/cancel signals parked while the ring was full
// reach the collector in the wrong order.  Sequential and deterministic.
use fastrace::util::spsc;

#[test]
fn forced_values_keep_their_order_across_a_full_ring() {
    let (mut tx, mut rx) = spsc::bounded::<u32>(1);
    tx.send(0).unwrap(); // ring is now full
    tx.force_send(1); // parked
    tx.force_send(2); // parked behind 1
    assert_eq!(rx.try_recv().unwrap(), Some(0)); // the collector drains one slot
    tx.force_send(3);
    let mut got = vec![0];
    for _ in 0..8 {
        while let Ok(Some(v)) = rx.try_recv() {
            got.push(v);
        }
        // make the sender replay what is still parked (the value itself may be omitted)
        let _ = tx.send(99);
    }
    got.retain(|v| *v != 99);
    assert_eq!(got, vec![0, 1, 2, 3], "forced values were dropped or reordered");
}
