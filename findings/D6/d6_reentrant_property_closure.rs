// D6 (C07): "calls made from inside property closures" must not panic.  LocalSpan::add_properties
// and LocalSpan::with_properties invoke the user's closure while the thread's local span stack is
// mutably borrowed (RefCell), so a closure that itself uses the local-span API panics with
// "already borrowed: BorrowMutError".
use std::sync::{Arc, Mutex};

use fastrace::collector::{Config, Reporter, SpanRecord};
use fastrace::prelude::*;

struct Capture(Arc<Mutex<Vec<SpanRecord>>>);
impl Reporter for Capture {
    fn report(&mut self, spans: Vec<SpanRecord>) {
        self.0.lock().unwrap().extend(spans);
    }
}

#[test]
fn property_closures_may_use_the_tracing_api() {
    let out = Arc::new(Mutex::new(Vec::new()));
    fastrace::set_reporter(Capture(out), Config::default());
    let root = Span::root("root", SpanContext::new(TraceId(6), SpanId(0)));
    let _g = root.set_local_parent();

    let r1 = std::panic::catch_unwind(|| {
        LocalSpan::add_properties(|| {
            LocalSpan::add_event(Event::new("from-closure"));
            [("k", "v")]
        });
    });
    let r2 = std::panic::catch_unwind(|| {
        let _s = LocalSpan::enter_with_local_parent("s").with_properties(|| {
            let _inner = LocalSpan::enter_with_local_parent("inner");
            [("k", "v")]
        });
    });
    assert!(r1.is_ok(), "LocalSpan::add_properties panicked on a re-entrant closure");
    assert!(r2.is_ok(), "LocalSpan::with_properties panicked on a re-entrant closure");
}
