// D11 (C06): a span created with two parents that belong to the SAME trace is delivered once under
// each parent (two records with the same span id), but an event / property attached later through
// the span handle is parked once per copy under that id and the first copy takes all of them.
// Run: cp d11_demo.rs <repo>/fastrace/tests/d11_demo.rs && cargo test --manifest-path fastrace/Cargo.toml --offline --test d11_demo
use fastrace::collector::{Config, SpanRecord, TestReporter};
use fastrace::prelude::*;

fn run(same_trace: bool) -> Vec<SpanRecord> {
    let (reporter, collected) = TestReporter::new();
    fastrace::set_reporter(reporter, Config::default());
    let root1 = Span::root("root1", SpanContext::new(TraceId(1), SpanId(0)));
    let root2 = Span::root("root2", SpanContext::new(TraceId(if same_trace { 1 } else { 2 }), SpanId(0)));
    let a = Span::enter_with_parent("a", &root1);
    let b = Span::enter_with_parent("b", if same_trace { &root1 } else { &root2 });
    let x = Span::enter_with_parents("x", [&a, &b]);
    x.add_event(Event::new("e"));
    x.add_property(|| ("late", "prop"));
    drop((x, a, b, root1, root2));
    fastrace::flush();
    let r = collected.lock().clone();
    r
}

#[test]
fn d11_multi_parent_span_in_one_trace() {
    let recs = run(false);
    let x: Vec<_> = recs.iter().filter(|r| r.name == "x").collect();
    assert_eq!(x.len(), 2);
    for r in &x {
        assert_eq!((r.events.len(), r.properties.len()), (1, 1), "control: {:?}", r);
    }
    let recs = run(true);
    let x: Vec<_> = recs.iter().filter(|r| r.name == "x").collect();
    assert_eq!(x.len(), 2);
    let ev: Vec<usize> = x.iter().map(|r| r.events.len()).collect();
    let pr: Vec<usize> = x.iter().map(|r| r.properties.len()).collect();
    assert_eq!((ev.clone(), pr.clone()), (vec![1, 1], vec![1, 1]), "copies differ: events per copy {:?}, properties per copy {:?}", ev, pr);
}
