// D5 (C07, C11): SpanContext::current_local_parent() indexed the first item of the local
// parent's token unconditionally.  A span created from an empty parent set (or from no-op parents
// only) has an empty token; setting it as local parent and asking for the current local parent
// panicked with "index out of bounds".  C07: tracing calls never panic; C11: both return None for
// a span that belongs to no trace.
use fastrace::prelude::*;

#[test]
fn current_local_parent_of_a_span_without_trace_is_none() {
    let noop = Span::noop();
    let orphan = Span::enter_with_parents("orphan", [&noop]);
    assert!(SpanContext::from_span(&orphan).is_none());
    let _g = orphan.set_local_parent();
    assert!(SpanContext::current_local_parent().is_none());
}
