// D3 (C13, C14, C03): InSpan::poll finished the span (submit + commit of a root) while the
// local-parent guard of that poll was still alive, so the local spans recorded during the final
// poll were submitted AFTER the root's CommitCollect.  If a collector cycle ends between the two
// pushes, the commit is processed in one cycle and the local spans arrive in the next: in
// cancelable mode they are discarded.  C13: "everything recorded under it during the final poll
// belongs to the delivered trace even when the span is the trace's root".
// Stress run: the window is a few instructions wide, the collector runs continuously.
use std::collections::HashMap;
use std::sync::{Arc, Mutex};
use std::time::Duration;

use fastrace::collector::{Config, Reporter, SpanRecord};
use fastrace::prelude::*;

struct Capture(Arc<Mutex<Vec<SpanRecord>>>);
impl Reporter for Capture {
    fn report(&mut self, spans: Vec<SpanRecord>) {
        self.0.lock().unwrap().extend(spans);
    }
}

#[test]
fn local_spans_of_the_final_poll_belong_to_the_trace() {
    let out = Arc::new(Mutex::new(Vec::new()));
    fastrace::set_reporter(
        Capture(out.clone()),
        Config::default().cancelable(true).report_interval(Duration::from_nanos(1)),
    );
    const N: u128 = 300_000;
    for i in 1..=N {
        let root = Span::root("root", SpanContext::new(TraceId(i), SpanId(0)));
        let fut = async {
            let _l = LocalSpan::enter_with_local_parent("inner");
        }
        .in_span(root);
        pollster::block_on(fut);
    }
    fastrace::flush();
    std::thread::sleep(Duration::from_millis(50));
    fastrace::flush();
    let recs = out.lock().unwrap();
    let mut per_trace: HashMap<u128, (bool, bool)> = HashMap::new();
    for r in recs.iter() {
        let e = per_trace.entry(r.trace_id.0).or_default();
        if r.name == "root" { e.0 = true; }
        if r.name == "inner" { e.1 = true; }
    }
    let broken = per_trace.values().filter(|(root, inner)| *root && !*inner).count();
    assert_eq!(broken, 0, "traces delivered without the local span recorded during the final poll");
}
