// D10 (C17): the same captured local-span set pushed to two parents of the SAME trace is not
// delivered as two identical subtrees: the collector parks the events / late properties of both
// copies in one map keyed by span id and hands all of them to the first record with that id.
// Run: cp d10_demo.rs <repo>/fastrace/tests/d10_demo.rs && cargo test --manifest-path fastrace/Cargo.toml --offline --test d10_demo
use fastrace::collector::{Config, SpanRecord, TestReporter};
use fastrace::local::LocalCollector;
use fastrace::prelude::*;

fn run(same_trace: bool) -> Vec<SpanRecord> {
    let (reporter, collected) = TestReporter::new();
    fastrace::set_reporter(reporter, Config::default());
    let set = {
        let lc = LocalCollector::start();
        {
            let _s = LocalSpan::enter_with_local_parent("s");
            LocalSpan::add_event(Event::new("e"));
            LocalSpan::add_property(|| ("late", "prop"));
        }
        lc.collect()
    };
    let root1 = Span::root("root1", SpanContext::new(TraceId(1), SpanId(0)));
    let root2 = Span::root("root2", SpanContext::new(TraceId(if same_trace { 1 } else { 2 }), SpanId(0)));
    let a = Span::enter_with_parent("a", &root1);
    let b = Span::enter_with_parent("b", if same_trace { &root1 } else { &root2 });
    a.push_child_spans(set.clone());
    b.push_child_spans(set);
    drop((a, b, root1, root2));
    fastrace::flush();
    let r = collected.lock().clone();
    r
}

#[test]
fn d10_two_copies_in_one_trace() {
    // control: two traces -> each copy has its event and its late property
    let recs = run(false);
    let s: Vec<_> = recs.iter().filter(|r| r.name == "s").collect();
    assert_eq!(s.len(), 2);
    for r in &s {
        assert_eq!(r.events.len(), 1, "control: {:?}", r);
        assert_eq!(r.properties.len(), 1, "control: {:?}", r);
    }
    // same trace: C17 demands two identical subtrees
    let recs = run(true);
    let s: Vec<_> = recs.iter().filter(|r| r.name == "s").collect();
    assert_eq!(s.len(), 2);
    let ev: Vec<usize> = s.iter().map(|r| r.events.len()).collect();
    let pr: Vec<usize> = s.iter().map(|r| r.properties.len()).collect();
    assert_eq!((ev.clone(), pr.clone()), (vec![1, 1], vec![1, 1]), "copies differ: events per copy {:?}, properties per copy {:?}", ev, pr);
}
