// D7 / D8 (C08, C03, C01): handle_commands drains the per-thread queues one after another, so a
// collector cycle does not see a consistent cut across threads.  A root created on thread A
// *after* A's queue was drained, handed to thread B and finished there *before* B's queue is
// drained (B is registered later) gives a cycle that sees CommitCollect(R) and SubmitSpans(R)
// but not StartCollect(R):
//   cycle k   : no entry for R -> submission discarded (cancelable) / stale, commit ignored
//   cycle k+1 : StartCollect(R) creates an entry that nothing will ever remove (C08), and in
//               cancelable mode the finished, never cancelled trace is never delivered (C03).
// The window is made wide by filler threads (registered between A and B) whose full queues take
// the collector tens of milliseconds to drain.
use std::sync::mpsc;
use std::sync::{Arc, Barrier, Mutex};
use std::time::Duration;

use fastrace::collector::{Config, Reporter, SpanRecord};
use fastrace::prelude::*;

struct Capture(Arc<Mutex<Vec<SpanRecord>>>);
impl Reporter for Capture {
    fn report(&mut self, spans: Vec<SpanRecord>) {
        self.0.lock().unwrap().extend(spans);
    }
}

#[test]
fn a_trace_finished_on_another_thread_is_delivered() {
    let out = Arc::new(Mutex::new(Vec::new()));
    fastrace::set_reporter(
        Capture(out.clone()),
        Config::default().cancelable(true).report_interval(Duration::from_secs(3600)),
    );
    // thread A = this thread: register its queue first
    drop(Span::root("warm-a", SpanContext::new(TraceId(1), SpanId(0))));
    fastrace::flush();

    // fillers: registered after A, each with a full queue, kept alive
    const FILLERS: usize = 48;
    let ready = Arc::new(Barrier::new(FILLERS + 1));
    let (stop_tx, stop_rx) = mpsc::channel::<()>();
    let stop_rx = Arc::new(Mutex::new(stop_rx));
    let mut fillers = Vec::new();
    for i in 0..FILLERS {
        let ready = ready.clone();
        let stop_rx = stop_rx.clone();
        fillers.push(std::thread::spawn(move || {
            let root = Span::root("filler", SpanContext::new(TraceId(1000 + i as u128), SpanId(0)));
            for _ in 0..10_000 {
                root.add_event(Event::new("e"));
            }
            ready.wait();
            let _ = stop_rx.lock().unwrap().recv_timeout(Duration::from_secs(30));
            root.cancel();
        }));
    }
    ready.wait();

    // thread B: registered last
    let (to_b, from_a) = mpsc::channel::<Span>();
    let (b_ready_tx, b_ready_rx) = mpsc::channel::<()>();
    let b = std::thread::spawn(move || {
        drop(Span::root("warm-b", SpanContext::new(TraceId(2), SpanId(0))));
        b_ready_tx.send(()).unwrap();
        let victim = from_a.recv().unwrap();
        drop(victim); // SubmitSpans + CommitCollect go to B's queue
        std::thread::sleep(Duration::from_millis(500));
    });
    b_ready_rx.recv().unwrap();

    // one collector cycle that takes a while; meanwhile A starts the victim trace
    let flusher = std::thread::spawn(fastrace::flush);
    std::thread::sleep(Duration::from_millis(3)); // A's (empty) queue has been drained by now
    let victim = Span::root("victim", SpanContext::new(TraceId(42), SpanId(0))); // StartCollect -> A's queue
    to_b.send(victim).unwrap();
    flusher.join().unwrap();

    drop(stop_tx);
    for f in fillers { f.join().unwrap(); }
    b.join().unwrap();
    fastrace::flush();
    fastrace::flush();

    let recs = out.lock().unwrap();
    assert!(
        recs.iter().any(|r| r.trace_id == TraceId(42) && r.name == "victim"),
        "the trace started on thread A and finished (never cancelled) on thread B was never delivered"
    );
}
