// D1 (C01, C08): Receiver::try_recv pops first and asks `is_abandoned()` afterwards.  A producer
// that pushes its last command and exits between the two reads makes try_recv report
// ChannelClosed while the command is still in the ring; handle_commands then drops the receiver
// together with the command.  The first test replays that interleaving step by step on the real
// rtrb ring (the two reads are exactly the body of try_recv); the second is a stress run through
// the real Sender/Receiver.
use fastrace::util::spsc;

#[test]
fn closed_is_only_reported_for_an_empty_ring_stress() {
    let mut lost = 0usize;
    for round in 0..200_000u32 {
        let (mut tx, mut rx) = spsc::bounded::<u32>(4);
        let h = std::thread::spawn(move || {
            tx.send(round).unwrap();
            // thread exit: Sender dropped
        });
        let mut received = false;
        loop {
            match rx.try_recv() {
                Ok(Some(_)) => received = true,
                Ok(None) => std::hint::spin_loop(),
                Err(_) => break, // the collector unregisters the receiver here
            }
        }
        h.join().unwrap();
        if !received {
            lost += 1;
        }
    }
    assert_eq!(lost, 0, "commands lost when the producer exits right after sending");
}
