// D4 (C04): "any cancel() in the default configuration changes nothing about what is delivered".
// handle_commands removed the trace's collector entry on DropCollect regardless of the
// configuration, so in the default (non-cancelable) configuration a cancel() made every later
// submission of that trace take the stale path, where attachments (events / properties added
// through the span handle) are parked in a throw-away map and lost.
use std::sync::{Arc, Mutex};

use fastrace::collector::{Config, Reporter, SpanRecord};
use fastrace::prelude::*;

struct Capture(Arc<Mutex<Vec<SpanRecord>>>);
impl Reporter for Capture {
    fn report(&mut self, spans: Vec<SpanRecord>) {
        self.0.lock().unwrap().extend(spans);
    }
}

fn run(cancel: bool) -> Vec<SpanRecord> {
    let out = Arc::new(Mutex::new(Vec::new()));
    fastrace::set_reporter(
        Capture(out.clone()),
        Config::default().report_interval(std::time::Duration::from_secs(3600)),
    );
    std::thread::sleep(std::time::Duration::from_millis(100)); // let the first (empty) cycle pass
    {
        let root = Span::root("root", SpanContext::new(TraceId(7), SpanId(0)));
        root.add_event(Event::new("attached-event"));
        if cancel {
            root.cancel(); // documented: no effect unless Config::cancelable(true)
        }
    }
    fastrace::flush();
    let v = out.lock().unwrap().clone();
    v
}

#[test]
fn cancel_changes_nothing_in_default_configuration() {
    let without = run(false);
    assert_eq!(without.len(), 1);
    assert_eq!(without[0].events.len(), 1, "baseline: the event is on the root record");
    let with = run(true);
    assert_eq!(with.len(), 1, "the trace is still delivered");
    assert_eq!(
        with[0].events.len(),
        1,
        "cancel() in the default configuration lost the event attached to the root"
    );
}
