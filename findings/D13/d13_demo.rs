// D13 (C04): cancel() issued while the calling thread's command queue is full is parked in that
// thread's overflow list and only enters the queue when the SAME thread sends its next command.  If
// the root is then finished on another thread, the CommitCollect overtakes the parked DropCollect
// and the cancelled trace is delivered.
// Run: cp d13_demo.rs <repo>/fastrace/tests/d13_demo.rs && cargo test --manifest-path fastrace/Cargo.toml --offline --test d13_demo
use std::time::Duration;

use fastrace::collector::{Config, TestReporter};
use fastrace::prelude::*;

fn run(fill: usize) -> usize {
    let (reporter, collected) = TestReporter::new();
    // collector cycles only when flush() is called
    fastrace::set_reporter(reporter, Config::default().cancelable(true).report_interval(Duration::from_secs(3600)));
    let root = Span::root("root", SpanContext::random());
    // fill this thread's command queue (10240 slots): every finished child is one command
    for _ in 0..fill {
        let _c = Span::enter_with_parent("child", &root);
    }
    root.cancel(); // with a full queue the DropCollect is parked on this thread
    // the root is finished on another thread, whose queue is empty
    std::thread::spawn(move || drop(root)).join().unwrap();
    fastrace::flush();
    let n = collected.lock().len();
    n
}

#[test]
fn d13_cancel_on_full_queue_then_finish_elsewhere() {
    // control: queue not full -> nothing of the cancelled trace is delivered
    assert_eq!(run(100), 0, "control");
    // queue full at cancel(): C04 still demands that nothing is delivered
    assert_eq!(run(12000), 0, "records of a cancelled trace were delivered");
}
