// D12 (C07): LocalParentGuard::drop debug-asserts that its scope had been registered.  When the
// thread's scope stack is full (4096 nested local-parent scopes) set_local_parent() cannot register a
// scope and returns a guard without one -- a documented "limit exceeded" state -- and dropping that
// guard panics in builds with debug assertions.
// Run: cp d12_demo.rs <repo>/fastrace/tests/d12_demo.rs && cargo test --manifest-path fastrace/Cargo.toml --offline --test d12_demo
use std::panic::{catch_unwind, AssertUnwindSafe};

use fastrace::collector::{Config, TestReporter};
use fastrace::prelude::*;

#[test]
fn d12_guard_beyond_the_scope_limit() {
    let (reporter, _collected) = TestReporter::new();
    fastrace::set_reporter(reporter, Config::default());
    let root = Span::root("root", SpanContext::random());
    let mut guards = Vec::new();
    for _ in 0..4096 {
        guards.push(root.set_local_parent()); // fills the scope stack
    }
    let extra = root.set_local_parent(); // beyond the limit: nothing is registered
    let r = catch_unwind(AssertUnwindSafe(move || drop(extra)));
    while let Some(g) = guards.pop() {
        drop(g); // reverse order of creation
    }
    assert!(r.is_ok(), "dropping a local-parent guard created beyond the scope limit panicked");
    // control: within the limit nothing panics
    let g = root.set_local_parent();
    let r2 = catch_unwind(AssertUnwindSafe(move || drop(g)));
    assert!(r2.is_ok());
}
