SETUP_CMD = "true"
NOTES = "Contract-based deductive verification of fast/fastrace. See DESIGN.md. bin/check <id> cuts the real functions out of /repo on every run, injects the contracts, and lets Verus discharge every obligation; exit 2 means undecided (lost anchor / unsupported construct / resource limit), never a violation."
WIP = "not yet under contract in this revision of /verif (work in progress; see DESIGN.md §10 order of work)"
NOT_APPLICABLE = {
    'C02': WIP, 'C05': WIP, 'C07': WIP, 'C11': WIP, 'C13': WIP, 'C14': WIP, 'C16': WIP, 'C19': WIP,
    'C15': "proc-macro output equivalence is translation validation, outside contract-based deductive verification: neither Verus nor Kani can take syn/quote code and no contract on gen_block can express 'the expansion behaves like the original' (DESIGN.md §6 C15)",
}
_T = "contract-based deductive verification (Verus) of functions extracted mechanically from /repo"
CHECK_NOTES = {
 'C01': {'text': "Verus proves, for all queue states and consumer interleavings, that the SPSC sender never loses an accepted command and the receiver reports 'closed' only when drained; and that handle_commands refines a functional cycle oracle for every batch of commands (all 7 loops, both configurations), over which 'every record once' theorems are proved.",
         'note': "trusted: rtrb contract, std-collection wrappers, thread-locality of senders, mutual exclusion of cycles, reporter modelled as a log. NOT decided: the 'within one report interval' clause and liveness of the background thread. The API layer (Span::drop/LocalParentGuard::drop emit exactly one submission) is not yet under contract."},
 'C03': {'text': "handle_commands is proved to refine the cycle oracle; theorems: in cancelable mode a cycle reports exactly what the commits of that batch release (everything buffered for the trace plus this batch's submissions, one report call), late submissions of finished traces are discarded.",
         'note': "NOT decided: the cross-thread clause needs a consistent cut across receivers that the sequential drain does not establish (DESIGN.md D8); the adapter ordering (local spans before the span's own finish) is not yet under contract."},
 'C04': {'text': "force path of the SPSC sender proved never to drop or reorder (all interleavings); handle_commands refines the oracle in which a DropCollect suppresses its trace when cancelable (theorem: nothing of it is reported, other traces unaffected) and is a no-op in the default configuration.",
         'note': "trusted: rtrb contract, std wrappers. Span::cancel emitting DropCollect only for roots is not yet under contract (API layer)."},
 'C06': {'text': "amend_span/amend_local_span/mount_danglings/postprocess proved equal to a functional oracle (attachments parked under their span id in order, mounted on the record with that id and on no other, key consumed); local recording of events/properties proved to attach under the innermost open span.",
         'note': "strings are opaque Cow values; the Span::add_event/add_properties API layer (pseudo-span under the target) is not yet under contract."},
 'C08': {'text': "theorems over the proved cycle oracle: retained traces = (active + started) - committed - (cancelable) dropped; default mode leaves no span collection buffered; a receiver is unregistered only when closed and drained (proved for all producer interleavings).",
         'note': "a StartCollect that arrives in a later cycle than its CommitCollect re-creates an entry (needs a cross-thread consistent cut; DESIGN.md D7) -- not claimed."},
 'C09': {'text': "SPSC sender: a full ring only omits the lossy value, force path keeps order; local structures: at capacity nothing changes at all (full-state postconditions), so recorded spans keep their parents.",
         'note': "'return immediately' is proved as termination + no lock, not as a latency bound."},
 'C10': {'text': "all functions of span_queue.rs, local_span_line.rs, local_span_stack.rs under full-state contracts; composition lemmas: enter/exit of a local span and register/unregister of a scope restore the context exactly, for any nesting depth.",
         'note': "assumes next_id() != 0 and Instant::now() != ZERO; guards being !Send is type-level."},
 'C12': {'text': "decode_w3c_traceparent proved to return Some iff there are exactly four dash-separated fields, the first is 00 and the three others are hex numbers that fit 128/64/8 bits, with the ids and (flags & 1) taken from them; encode proved to use the fixed 00-32-16-2 layout; round trip and length 55 as a Verus theorem over the two contracts -- for all inputs.",
         'note': "The numeric text codec itself is std's (split, from_str_radix, format!) and is ASSUMED via three uninterpreted functions and two axioms; from_str_radix also accepts a leading '+', which the statement's wording does not mention. Display/FromStr/serde impls are not covered."},
 'C17': {'text': "to_span_records and the collector path are proved equal to the same oracle (post_recs of one collection); copies under two parents differ only in trace id and root parent ids.",
         'note': "identical up to the clock anchor (proved per anchor). push_child_spans API layer not yet under contract."},
 'C18': {'text': "duration = saturating difference of converted instants, open spans end at collection time, events carry their instant -- proved on amend_span/amend_local_span.",
         'note': "NOT decided: wall-clock window and interval nesting (need a monotone clock; TSC/f64 conversion trusted)."},
 'C20': {'text': "try_report proved with a ghost datagram log: every datagram < 8000 bytes, ranges ordered, disjoint and covering every span that fits alone exactly once, oversize singles skipped; termination by a lexicographic measure.",
         'note': "convert/serialize are a length function of the slice (enc_len); UdpSocket trusted."},
}
