"""rsx -- a small Rust source cutter.

Tokenizes Rust text (strings, raw strings, chars vs lifetimes, nested block
comments) and finds items (fn / struct / enum / impl / mod / trait / const /
static / type / use / macro invocations) with their attributes, so that an item
can be cut out of a file of /repo byte for byte.  Nothing here interprets
bodies; bodies are only searched for balanced delimiters.
"""
import re

WS, COM, ID, LIFE, STR, CHR, NUM, P = 'ws', 'com', 'id', 'life', 'str', 'chr', 'num', 'p'


class Tok:
    __slots__ = ('k', 's', 'a', 'b')

    def __init__(self, k, s, a, b):
        self.k, self.s, self.a, self.b = k, s, a, b

    def __repr__(self):
        return '%s:%r' % (self.k, self.s)


_id_re = re.compile(r'[A-Za-z_][A-Za-z0-9_]*')
_num_re = re.compile(r'[0-9][A-Za-z0-9_]*(\.[0-9][A-Za-z0-9_]*)?')
_raw_re = re.compile(r'b?r(#*)"')


class LexError(Exception):
    pass


def tokenize(src):
    toks = []
    i, n = 0, len(src)
    while i < n:
        c = src[i]
        if c.isspace():
            j = i + 1
            while j < n and src[j].isspace():
                j += 1
            toks.append(Tok(WS, src[i:j], i, j))
            i = j
            continue
        if src.startswith('//', i):
            j = src.find('\n', i)
            j = n if j < 0 else j
            toks.append(Tok(COM, src[i:j], i, j))
            i = j
            continue
        if src.startswith('/*', i):
            depth, j = 1, i + 2
            while j < n and depth:
                if src.startswith('/*', j):
                    depth += 1
                    j += 2
                elif src.startswith('*/', j):
                    depth -= 1
                    j += 2
                else:
                    j += 1
            toks.append(Tok(COM, src[i:j], i, j))
            i = j
            continue
        m = _raw_re.match(src, i)
        if m:
            close = '"' + m.group(1)
            j = src.find(close, m.end())
            if j < 0:
                raise LexError('unterminated raw string at %d' % i)
            j += len(close)
            toks.append(Tok(STR, src[i:j], i, j))
            i = j
            continue
        if c == '"' or (c == 'b' and i + 1 < n and src[i + 1] == '"'):
            j = i + (2 if c == 'b' else 1)
            while j < n and src[j] != '"':
                j += 2 if src[j] == '\\' else 1
            j += 1
            toks.append(Tok(STR, src[i:j], i, j))
            i = j
            continue
        if c == "'" or (c == 'b' and i + 1 < n and src[i + 1] == "'"):
            k = i + (1 if c == 'b' else 0)
            # char literal: '\x', 'c' ; lifetime: 'ident not followed by '
            if k + 1 < n and src[k + 1] == '\\':
                j = k + 2
                while j < n and src[j] != "'":
                    j += 1
                j += 1
                toks.append(Tok(CHR, src[i:j], i, j))
                i = j
                continue
            if k + 2 < n and src[k + 2] == "'":
                toks.append(Tok(CHR, src[i:k + 3], i, k + 3))
                i = k + 3
                continue
            m = _id_re.match(src, k + 1)
            if m and c == "'":
                toks.append(Tok(LIFE, src[i:m.end()], i, m.end()))
                i = m.end()
                continue
            raise LexError('bad quote at %d' % i)
        m = _id_re.match(src, i)
        if m:
            # r#ident
            toks.append(Tok(ID, m.group(0), i, m.end()))
            i = m.end()
            continue
        m = _num_re.match(src, i)
        if m:
            toks.append(Tok(NUM, m.group(0), i, m.end()))
            i = m.end()
            continue
        toks.append(Tok(P, c, i, i + 1))
        i += 1
    return toks


OPEN = {'(': ')', '[': ']', '{': '}'}
CLOSE = {')', ']', '}'}


def sig(toks):
    """indices of significant tokens"""
    return [i for i, t in enumerate(toks) if t.k not in (WS, COM)]


def match_close(toks, i):
    """toks[i] is an opening delimiter; return index of its closer."""
    depth = 0
    j = i
    while j < len(toks):
        t = toks[j]
        if t.k == P:
            if t.s in OPEN:
                depth += 1
            elif t.s in CLOSE:
                depth -= 1
                if depth == 0:
                    return j
        j += 1
    raise LexError('unbalanced delimiter at %d' % toks[i].a)


class Item:
    def __init__(self):
        self.attrs = []      # list of (text, a, b)
        self.vis = ''
        self.kind = ''
        self.name = ''
        self.header = ''     # text from keyword to body-open (exclusive)
        self.a = self.b = 0  # byte span including attrs
        self.kw_a = 0        # byte offset where vis/keyword starts (after attrs)
        self.body_a = self.body_b = None  # byte offsets of '{' and matching '}' (inclusive of braces)
        self.children = []
        self.parent = None
        self.path = ''

    def __repr__(self):
        return '<%s %s>' % (self.kind, self.path or self.name)


ITEM_KW = {'fn', 'struct', 'enum', 'union', 'impl', 'mod', 'trait', 'const', 'static', 'type', 'use', 'extern'}
PREFIX_KW = {'unsafe', 'async', 'default'}


def parse_items(src, toks=None, lo=0, hi=None, parent=None):
    """Parse the items between token indices lo..hi (a brace interior)."""
    if toks is None:
        toks = tokenize(src)
    if hi is None:
        hi = len(toks)
    items = []
    i = lo

    def skip(i):
        while i < hi and toks[i].k in (WS, COM):
            i += 1
        return i

    while True:
        i = skip(i)
        if i >= hi:
            break
        it = Item()
        it.parent = parent
        it.a = toks[i].a
        # attributes
        while i < hi and toks[i].k == P and toks[i].s == '#':
            j = skip(i + 1)
            if toks[j].k == P and toks[j].s == '!':
                j = skip(j + 1)
            if not (toks[j].k == P and toks[j].s == '['):
                raise LexError('bad attribute at %d' % toks[i].a)
            e = match_close(toks, j)
            it.attrs.append((src[toks[i].a:toks[e].b], toks[i].a, toks[e].b))
            i = skip(e + 1)
        if i >= hi:
            break
        it.kw_a = toks[i].a
        # visibility
        if toks[i].k == ID and toks[i].s == 'pub':
            j = skip(i + 1)
            if toks[j].k == P and toks[j].s == '(':
                e = match_close(toks, j)
                it.vis = src[toks[i].a:toks[e].b]
                i = skip(e + 1)
            else:
                it.vis = 'pub'
                i = j
        # prefixes
        while toks[i].k == ID and toks[i].s in PREFIX_KW:
            i = skip(i + 1)
        if toks[i].k == ID and toks[i].s == 'const':
            j = skip(i + 1)
            if toks[j].k == ID and toks[j].s in ('fn', 'unsafe', 'async', 'extern'):
                i = j
                while toks[i].k == ID and toks[i].s in PREFIX_KW:
                    i = skip(i + 1)
        if toks[i].k == ID and toks[i].s == 'extern':
            j = skip(i + 1)
            if toks[j].k == STR:
                j = skip(j + 1)
            if toks[j].k == ID and toks[j].s == 'fn':
                i = j
        t = toks[i]
        if t.k == ID and t.s in ITEM_KW:
            it.kind = t.s
            kw = i
            j = skip(i + 1)
            if it.kind in ('fn', 'struct', 'enum', 'union', 'mod', 'trait', 'type', 'const', 'static'):
                if toks[j].k == ID and toks[j].s == 'mut':
                    j = skip(j + 1)
                it.name = toks[j].s
            # find the end
            depth = 0
            k = j
            body = None
            while k < hi:
                tk = toks[k]
                if tk.k == P:
                    if tk.s in '([':
                        k = match_close(toks, k)
                    elif tk.s == '{':
                        if it.kind in ('fn', 'struct', 'enum', 'union', 'impl', 'mod', 'trait', 'extern'):
                            body = k
                            break
                        k = match_close(toks, k)
                    elif tk.s == ';':
                        break
                k += 1
            if body is not None:
                e = match_close(toks, body)
                it.header = src[toks[kw].a:toks[body].a]
                it.body_a, it.body_b = toks[body].a, toks[e].b
                it.b = toks[e].b
                if it.kind in ('impl', 'mod', 'trait'):
                    if it.kind == 'impl':
                        it.name = impl_target(it.header)
                    it.children = parse_items(src, toks, body + 1, e, it)
                i = e + 1
            else:
                it.header = src[toks[kw].a:toks[k].a]
                it.b = toks[k].b
                i = k + 1
        elif t.k == ID:
            # macro invocation item:  name ! { .. }  |  name ! ( .. ) ;
            it.kind = 'macro'
            it.name = t.s
            j = skip(i + 1)
            # path::name!
            while toks[j].k == P and toks[j].s == ':':
                j = skip(j + 1)
                if toks[j].k == ID:
                    it.name = toks[j].s
                    j = skip(j + 1)
            if not (toks[j].k == P and toks[j].s == '!'):
                raise LexError('unrecognised item at byte %d: %r' % (t.a, src[t.a:t.a + 40]))
            j = skip(j + 1)
            if toks[j].k == ID:  # macro_rules! name
                it.name += '!' + toks[j].s
                j = skip(j + 1)
            e = match_close(toks, j)
            it.body_a, it.body_b = toks[j].a, toks[e].b
            k = skip(e + 1)
            if k < hi and toks[k].k == P and toks[k].s == ';':
                e = k
            it.b = toks[e].b
            i = e + 1
        else:
            raise LexError('unrecognised item at byte %d: %r' % (t.a, src[t.a:t.a + 40]))
        it.path = (parent.name + '::' if parent is not None and parent.kind in ('impl', 'trait', 'mod') else '') + it.name
        items.append(it)
    return items


def impl_target(header):
    """'impl<T> Drop for Sender<T> where ..' -> 'Drop for Sender' ; 'impl Foo' -> 'Foo'"""
    h = header.strip()
    assert h.startswith('impl')
    h = h[4:].lstrip()
    if h.startswith('<'):
        d = 0
        for idx, ch in enumerate(h):
            if ch == '<':
                d += 1
            elif ch == '>':
                d -= 1
                if d == 0:
                    h = h[idx + 1:]
                    break
    h = re.split(r'\bwhere\b', h)[0]

    def strip_generics(s):
        out, d = [], 0
        for ch in s:
            if ch == '<':
                d += 1
            elif ch == '>':
                d -= 1
            elif d == 0:
                out.append(ch)
        return ''.join(out)

    h = strip_generics(h)
    h = ' '.join(h.split())
    parts = h.split(' for ')
    parts = [p.split('::')[-1].strip() for p in parts]
    return ' for '.join(parts)


def find_item(items, path, kind=None):
    """path: 'Sender::send' | 'bounded' | 'Drop for Sender::drop'; kind optional."""
    res = []

    def walk(lst):
        for it in lst:
            if it.path == path and (kind is None or it.kind == kind):
                res.append(it)
            if it.kind == 'mod' and it.name == 'tests':
                continue
            walk(it.children)

    walk(items)
    return res


# ---------------------------------------------------------------- cfg evaluation

def cfg_eval(expr, cfg):
    """expr: text inside cfg(...).  cfg: dict e.g. {'feature=enable': True, 'test': False}.
    Unknown atoms evaluate to False."""
    expr = expr.strip()
    m = re.match(r'^(all|any|not)\s*\((.*)\)$', expr, re.S)
    if m:
        op, inner = m.group(1), m.group(2)
        parts, d, cur = [], 0, ''
        for ch in inner:
            if ch == '(':
                d += 1
            elif ch == ')':
                d -= 1
            if ch == ',' and d == 0:
                parts.append(cur)
                cur = ''
            else:
                cur += ch
        if cur.strip():
            parts.append(cur)
        vals = [cfg_eval(p, cfg) for p in parts]
        if op == 'all':
            return all(vals)
        if op == 'any':
            return any(vals)
        return not vals[0]
    key = re.sub(r'\s+', '', expr).replace('"', '')
    return bool(cfg.get(key, False))


_cfg_attr_re = re.compile(r'^#\[\s*cfg\s*\((.*)\)\s*\]$', re.S)


def attr_cfg(attr_text):
    m = _cfg_attr_re.match(attr_text)
    return m.group(1) if m else None


def strip_cfg_in_body(text, cfg, log=None):
    """Evaluate #[cfg(..)] attributes that sit on statements, blocks, fields or
    struct-literal fields inside `text` (an item's text).  A false arm is
    removed together with the statement/field it governs; a true attribute is
    removed and its statement kept.  This is what rustc does."""
    while True:
        toks = tokenize(text)
        s = sig(toks)
        hit = None
        for n, i in enumerate(s):
            t = toks[i]
            if t.k == P and t.s == '#' and n + 1 < len(s) and toks[s[n + 1]].s == '[':
                e = match_close(toks, s[n + 1])
                at = text[t.a:toks[e].b]
                c = attr_cfg(at)
                if c is None:
                    continue
                hit = (n, i, e, c)
                break
        if hit is None:
            return text
        n, i, e, c = hit
        val = cfg_eval(c, cfg)
        if log is not None:
            log.append(('cfg(%s)' % ' '.join(c.split()), val))
        a0 = toks[i].a
        if val:
            # drop just the attribute (and following whitespace)
            b0 = toks[e].b
            while b0 < len(text) and text[b0] in ' \t':
                b0 += 1
            if b0 < len(text) and text[b0] == '\n':
                b0 += 1
                while b0 < len(text) and text[b0] in ' \t':
                    b0 += 1
            text = text[:a0] + text[b0:]
            continue
        # find the end of the governed statement / field
        pos = [k for k in s if k > e]
        j = 0
        end_b = None
        first = toks[pos[0]]
        blocklike = first.k == P and first.s == '{' or (first.k == ID and first.s in ('if', 'match', 'for', 'while', 'loop', 'unsafe'))
        k = 0
        while k < len(pos):
            tk = toks[pos[k]]
            if tk.k == P and tk.s in OPEN:
                ce = match_close(toks, pos[k])
                if tk.s == '{' and blocklike:
                    # after a block: continue only over `else`
                    nxt = [q for q in pos if q > ce]
                    if nxt and toks[nxt[0]].k == ID and toks[nxt[0]].s == 'else':
                        k = pos.index(nxt[0]) + 1
                        continue
                    end_b = toks[ce].b
                    # swallow a trailing ';' or ','
                    if nxt and toks[nxt[0]].k == P and toks[nxt[0]].s in ';,':
                        end_b = toks[nxt[0]].b
                    break
                k = pos.index(ce) if ce in pos else k
                k += 1
                continue
            if tk.k == P and tk.s in ';,':
                end_b = tk.b
                break
            if tk.k == P and tk.s in CLOSE:
                end_b = tk.a  # field at end of struct without trailing comma
                break
            k += 1
        if end_b is None:
            raise LexError('cannot delimit cfg-governed statement near %r' % text[a0:a0 + 60])
        # remove leading indentation of the removed line
        a1 = a0
        while a1 > 0 and text[a1 - 1] in ' \t':
            a1 -= 1
        b1 = end_b
        while b1 < len(text) and text[b1] in ' \t':
            b1 += 1
        if b1 < len(text) and text[b1] == '\n' and (a1 == 0 or text[a1 - 1] == '\n'):
            b1 += 1
        text = text[:a1] + text[b1:]


def item_text(src, it, cfg=None, drop_attrs=(), log=None):
    """Text of the item, attributes filtered: cfg attrs evaluated (returns None
    when the item is configured out), attributes whose name is in drop_attrs
    removed."""
    keep = []
    for (at, a, b) in it.attrs:
        c = attr_cfg(at)
        if c is not None:
            if cfg is not None and not cfg_eval(c, cfg):
                return None
            continue
        name = re.match(r'#!?\[\s*([A-Za-z_:]+)', at).group(1)
        if name in drop_attrs:
            continue
        keep.append(at)
    body = src[it.kw_a:it.b]
    if cfg is not None:
        body = strip_cfg_in_body(body, cfg, log)
    return ''.join(a + '\n' for a in keep) + body
