"""Run Verus on an assembled unit and map its diagnostics back to named
obligations."""
import json
import os
import re
import subprocess
import time
from . import spec as specmod
from .unit import Unit

VERIFICATION_MSGS = [
    'postcondition not satisfied',
    'precondition not satisfied',
    'invariant not satisfied',
    'loop invariant not satisfied',
    'assertion failed',
    'assertion failure',
    'decreases not satisfied',
    'possible arithmetic underflow/overflow',
    'possible division by zero',
    'possible bit shift underflow/overflow',
    'recommendation not met',
    'unreachable',
    'loop ensures not satisfied',
    'could not prove termination',
    'constructed value may fail to meet its declared type invariant',
    'cannot show invariant holds',
    'index out of bounds',
    'unwrap',
    'unable to prove post-condition of closure',
    'fails to satisfy `callee.requires(args)`',
    'unable to prove',
    'not satisfied',
]
RESOURCE_MSGS = ['resource limit', 'rlimit', 'timed out', 'timeout']

OB_RE = re.compile(r'/\*@ob\s+(.+?)\s*\*/')

VERUS_ENV = dict(os.environ)


class Failure:
    def __init__(self, kind, obligation, fn, message, rendered, line):
        self.kind, self.obligation, self.fn = kind, obligation, fn
        self.message, self.rendered, self.line = message, rendered, line

    def as_dict(self):
        return {'kind': self.kind, 'obligation': self.obligation, 'function': self.fn,
                'message': self.message, 'line': self.line, 'verifier_output': self.rendered}


class UnitResult:
    def __init__(self, unit):
        self.unit = unit
        self.status = 'ok'        # ok | failed | infra
        self.infra = None
        self.failures = []
        self.fn_status = {}       # emitted path -> True/False
        self.obligations = []     # every named obligation of the unit
        self.smt_ms = 0
        self.total_ms = 0
        self.verified = 0
        self.errors = 0
        self.file = None
        self.cmd = ''
        self.trusted = []
        self.rewrites = {}
        self.stderr = ''

    def failed_obligations(self):
        return sorted(set(f.obligation for f in self.failures))


def scan_trusted(text):
    """list every place where the generated file trusts instead of proves"""
    out = []
    lines = text.split('\n')
    for i, ln in enumerate(lines):
        s = ln.strip()
        if s.startswith('//'):
            continue
        for kw in ('external_body', 'assume_specification', 'admit()', 'assume(', 'exec_allows_no_decreases_clause', 'external_fn_specification', 'uninterp spec fn', '#[verifier::external', 'axiom fn', 'broadcast axiom'):
            if kw in s:
                # name the item: look ahead for fn/struct name
                nm = ''
                for j in range(i, min(i + 6, len(lines))):
                    m = re.search(r'\b(fn|struct|enum)\s+([A-Za-z_0-9]+)', lines[j])
                    if m:
                        nm = m.group(2)
                        break
                out.append('%s: %s' % (kw.strip('(#[').rstrip('('), nm or s[:60]))
                break
    # dedupe preserving order
    seen, res = set(), []
    for x in out:
        if x not in seen:
            seen.add(x)
            res.append(x)
    return res


def run_unit(name, workdir, vacuity=False, mutate=None, tag=''):
    u = Unit(name)
    res = UnitResult(u)
    t0 = time.time()
    try:
        if vacuity:
            for fs in u.specs.values():
                if fs.kind == 'fn':
                    fs.vacuity_twin = True
        text = u.assemble(mutate=mutate)
    except specmod.LostAnchor as e:
        res.status, res.infra = 'infra', 'lost anchor: %s' % e
        return res
    except Exception as e:  # extraction problems are infrastructure, never a violation
        res.status, res.infra = 'infra', 'extraction failed: %s: %s' % (type(e).__name__, e)
        return res
    fn = os.path.join(workdir, '%s%s.rs' % (name, tag))
    open(fn, 'w').write(text)
    res.file = fn
    res.trusted = scan_trusted(text)
    res.rewrites = {em.path: em.rewrites for em in u.emitted if em.rewrites}
    lines = text.split('\n')
    obs = []
    for ln in lines:
        for m in OB_RE.finditer(ln):
            if m.group(1) not in obs:
                obs.append(m.group(1))
    rlimit = str(u.conf.get('rlimit', 30))
    cmd = ['verus', fn, '--output-json', '--time', '--multiple-errors', '50', '--error-format=json', '--rlimit', rlimit]
    cmd += u.conf.get('verus_args', [])
    res.cmd = ' '.join(cmd)
    try:
        p = subprocess.run(cmd, capture_output=True, text=True, timeout=int(u.conf.get('timeout', 900)), cwd=workdir)
    except subprocess.TimeoutExpired:
        res.status, res.infra = 'infra', 'verus timed out'
        return res
    res.stderr = p.stderr
    try:
        js = json.loads(p.stdout)
    except Exception:
        js = None
    diags = []
    for ln in p.stderr.split('\n'):
        ln = ln.strip()
        if ln.startswith('{'):
            try:
                diags.append(json.loads(ln))
            except Exception:
                pass
    if js is None or 'verification-results' not in js:
        res.status = 'infra'
        msgs = [d.get('rendered', d.get('message', '')) for d in diags if d.get('level') == 'error']
        res.infra = 'verus produced no verification result (front-end error):\n' + '\n'.join(msgs[:8]) + p.stderr[-2000:] if not msgs else 'verus front-end error:\n' + '\n'.join(msgs[:8])
        return res
    vr = js['verification-results']
    res.verified, res.errors = vr.get('verified', 0), vr.get('errors', 0)
    tm = js.get('times-ms', {})
    res.total_ms = tm.get('total', 0)
    smt = tm.get('smt', {})
    res.smt_ms = smt.get('total', 0)
    fnb = {}
    for mt in smt.get('smt-run-module-times', []):
        for fb in mt.get('function-breakdown', []):
            fnb[fb['function']] = fb
    res.fn_breakdown = fnb
    # attribute diagnostics
    infra_msgs = []
    for d in diags:
        if d.get('level') != 'error':
            continue
        msg = d.get('message', '')
        if msg.startswith('aborting due to'):
            continue
        low = msg.lower()
        spans = d.get('spans', [])
        prim = [s for s in spans if s.get('is_primary')] or spans
        line = prim[0]['line_start'] if prim else 0
        if any(r in low for r in RESOURCE_MSGS):
            infra_msgs.append(msg)
            continue
        # a diagnostic that carries a rustc error code (E0277, E0308, ...) is a compile error of the
        # assembled text, never a failed proof obligation
        if d.get('code') or not any(v in low for v in VERIFICATION_MSGS):
            infra_msgs.append(d.get('rendered', msg))
            continue
        # which function: any span inside an emitted item (the failing code), else prelude
        em = None
        for s in sorted(spans, key=lambda s: not s.get('is_primary')):
            e2 = u.item_at_line(s['line_start'])
            if e2 is not None and e2.kind == 'fn':
                # prefer the span that is in a *body* (call site / end of function)
                em = em or e2
        where_fn = None
        # the enclosing function of the failing site: for preconditions the primary span is the call site
        for s in prim:
            e2 = u.item_at_line(s['line_start'])
            if e2 is not None:
                where_fn = e2.path
        if where_fn is None and em is not None:
            where_fn = em.path
        if where_fn is None:
            where_fn = _enclosing_fn_name(lines, line)
        # which obligation: a marker on any span line
        ob = None
        for s in spans:
            for l in range(s['line_start'], s['line_end'] + 1):
                if l - 1 < len(lines):
                    m = OB_RE.search(lines[l - 1])
                    # a clause that spans several lines carries its marker on its first line
                    if m and (s.get('label') or s.get('is_primary')) and l == s['line_start']:
                        ob = ob or m.group(1)
        kind = low
        if 'precondition' in low:
            kind = 'precondition'
            callee = ob
            site = ' '.join(prim[0]['text'][0]['text'].split()) if prim and prim[0].get('text') else ''
            ob = '%s::call_precondition[%s]' % (where_fn, callee or site[:60])
        elif ob is None:
            site = ' '.join(prim[0]['text'][0]['text'].split()) if prim and prim[0].get('text') else ''
            short = 'assert' if 'assert' in low else ('overflow' if 'overflow' in low else 'safety')
            ob = '%s::%s[%s]' % (where_fn, short, site[:60])
        res.failures.append(Failure(kind, ob, where_fn, msg, d.get('rendered', ''), line))
    # function status from breakdown
    for em in u.emitted:
        if em.kind != 'fn':
            continue
        hit = None
        for k, fb in fnb.items():
            if k.endswith('::' + em.path.replace('Drop for ', '')) or k.split('::', 1)[-1] == em.path:
                hit = fb
        if hit is not None:
            res.fn_status[em.path] = bool(hit.get('success'))
    res.obligations = obs
    hard_infra = [m for m in infra_msgs if not any(r in m.lower() for r in RESOURCE_MSGS)]
    res.resource_msgs = [m for m in infra_msgs if m not in hard_infra]
    if infra_msgs and not res.failures:
        res.status, res.infra = 'infra', 'verus reported non-verification errors:\n' + '\n'.join(infra_msgs[:6])
    elif hard_infra:
        res.status, res.infra = 'infra', 'verus reported non-verification errors next to verification failures:\n' + '\n'.join(hard_infra[:6])
    elif infra_msgs:
        # definite failed obligations plus a solver resource limit elsewhere: the failures stand
        res.status = 'failed'
    elif res.failures or res.errors:
        res.status = 'failed'
        if not res.failures:
            res.status, res.infra = 'infra', 'verus reports %d errors but none could be attributed' % res.errors
    res.wall_s = time.time() - t0
    return res


def _enclosing_fn_name(lines, line):
    for l in range(min(line, len(lines)) - 1, -1, -1):
        m = re.search(r'\b(?:proof\s+|spec\s+|exec\s+)?fn\s+([A-Za-z_0-9]+)', lines[l])
        if m:
            return m.group(1)
    return '?'
