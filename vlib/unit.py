"""Assemble a Verus unit: cut the real items out of /repo, apply the numbered
rewrite rules, inject the side-car contracts, wrap with the trusted prelude."""
import json
import os
import re
import hashlib
from . import rsx, spec

VERIF = os.path.dirname(os.path.dirname(os.path.abspath(__file__)))
REPO = os.environ.get('VERIF_REPO', '/repo')

DROP_ATTRS = ('inline', 'must_use', 'doc', 'allow', 'deprecated', 'cfg_attr')


class Unsupported(Exception):
    pass


class Emitted:
    """one emitted item with its line span in the generated file"""

    def __init__(self, path, kind, file, src_line, text, rewrites):
        self.path, self.kind, self.file, self.src_line = path, kind, file, src_line
        self.text, self.rewrites = text, rewrites
        self.l0 = self.l1 = 0


def rule_R1_pub(text, kind, in_trait_impl):
    """visibility -> pub (fns outside trait impls, structs and their fields)"""
    n = 0
    if kind == 'fn':
        if in_trait_impl:
            return text, 0
        m = re.match(r'^((?:#\[[^\]]*\]\s*)*)(pub\s*\([^)]*\)\s*|pub\s+)?', text)
        pre, vis = m.group(1), m.group(2)
        if vis is None or vis.strip() != 'pub':
            text = pre + 'pub ' + text[m.end():]
            n = 1
        return text, n
    if kind in ('struct', 'enum', 'const', 'type') and not in_trait_impl:
        m = re.match(r'^((?:#\[[^\]]*\]\s*)*)(pub\s*\([^)]*\)\s*|pub\s+)?', text)
        pre, vis = m.group(1), m.group(2)
        if vis is None or vis.strip() != 'pub':
            text = pre + 'pub ' + text[m.end():]
            n += 1
    if kind == 'struct':
        toks = rsx.tokenize(text)
        s = rsx.sig(toks)
        # locate the body brace / paren
        out = []
        depth = 0
        ins = []
        body_open = None
        seen_kw = False
        for idx, i in enumerate(s):
            t = toks[i]
            if t.k == rsx.ID and t.s == 'struct':
                seen_kw = True
                continue
            if not seen_kw:
                continue
            if t.k == rsx.P and t.s in '{(':
                body_open = i
                break
            if t.k == rsx.P and t.s == ';':
                break
        if body_open is None:
            return text, n
        close = rsx.match_close(toks, body_open)
        tuple_struct = toks[body_open].s == '('
        inner = [i for i in s if body_open < i < close]
        at_start = True
        depth = 0
        k = 0
        while k < len(inner):
            t = toks[inner[k]]
            if at_start:
                # skip attributes on the field
                if t.k == rsx.P and t.s == '#':
                    e = rsx.match_close(toks, inner[k + 1])
                    k = inner.index(e) + 1
                    continue
                if not (t.k == rsx.ID and t.s == 'pub'):
                    ins.append(t.a)
                    n += 1
                else:
                    # pub(crate) -> pub
                    nx = toks[inner[k + 1]]
                    if nx.k == rsx.P and nx.s == '(':
                        e = rsx.match_close(toks, inner[k + 1])
                        ins.append((nx.a, toks[e].b))
                        n += 1
                at_start = False
            if t.k == rsx.P and t.s in rsx.OPEN:
                e = rsx.match_close(toks, inner[k])
                k = inner.index(e) + 1
                continue
            if t.k == rsx.P and t.s == '<':
                depth += 1
            elif t.k == rsx.P and t.s == '>' and depth > 0:
                depth -= 1
            elif t.k == rsx.P and t.s == ',' and depth == 0:
                at_start = True
            k += 1
        for p in sorted(ins, key=lambda x: x[0] if isinstance(x, tuple) else x, reverse=True):
            if isinstance(p, tuple):
                text = text[:p[0]] + text[p[1]:]
            else:
                text = text[:p] + 'pub ' + text[p:]
    return text, n


def rule_R2_debug_assert_eq(text):
    """drop `debug_assert_eq!( .. );` statements"""
    n = 0
    while True:
        toks = rsx.tokenize(text)
        s = rsx.sig(toks)
        hit = None
        for idx, i in enumerate(s):
            t = toks[i]
            if t.k == rsx.ID and t.s in ('debug_assert_eq', 'debug_assert_ne') and toks[s[idx + 1]].s == '!':
                e = rsx.match_close(toks, s[idx + 2])
                b = toks[e].b
                nx = s[s.index(e) + 1]
                if toks[nx].s == ';':
                    b = toks[nx].b
                hit = (t.a, b)
                break
        if hit is None:
            return text, n
        text = text[:hit[0]] + '/* R2: debug_assert_eq dropped */' + text[hit[1]:]
        n += 1


def rule_R8_wild_closure(text):
    n = len(re.findall(r'\|_\|', text))
    return text.replace('|_|', '|_e|'), n


def rule_R10_serde(text):
    """drop serde derives / field attributes (no extern crates in single-file Verus)"""
    n = 0
    new = re.sub(r'#\[serde\([^\]]*\)\]\s*', '', text)
    if new != text:
        n += 1
    def fix(m):
        items = [x.strip() for x in m.group(1).split(',') if x.strip() and x.strip() not in ('Serialize', 'Deserialize', 'serde::Serialize', 'serde::Deserialize')]
        return '#[derive(%s)]' % ', '.join(items) if items else ''
    new2 = re.sub(r'#\[derive\(([^)]*)\)\]', fix, new)
    if new2 != new:
        n += 1
    return new2, n


def rule_R17_ref_pattern_let_else(text):
    """`let Some(&x) = E else { .. };`  ->  `let Some(x__ref) = E else { .. }; let x = *x__ref;`
       `if let Some(&x) = E {`           ->  `if let Some(x__ref) = E { let x = *x__ref;`
    (Verus has no `&` patterns)"""
    n = 0
    while True:
        m = re.search(r'(if\s+)?let\s+Some\(\s*&\s*([A-Za-z_][A-Za-z_0-9]*)\s*\)\s*=', text)
        if not m:
            return text, n
        is_if, var = bool(m.group(1)), m.group(2)
        toks = rsx.tokenize(text)
        if is_if:
            # the block opening after the scrutinee
            k = next(i for i, t in enumerate(toks) if t.a >= m.end())
            while not (toks[k].k == rsx.P and toks[k].s == '{'):
                if toks[k].k == rsx.P and toks[k].s in '([':
                    k = rsx.match_close(toks, k)
                k += 1
            end = toks[k].b
            text = text[:end] + ' let %s = *%s__ref;' % (var, var) + text[end:]
            text = text[:m.start()] + 'if let Some(%s__ref) =' % var + text[m.end():]
            n += 1
            continue
        idx = next(i for i, t in enumerate(toks) if t.a >= m.end() and t.k == rsx.ID and t.s == 'else')
        j = idx + 1
        while toks[j].k in (rsx.WS, rsx.COM):
            j += 1
        if not (toks[j].k == rsx.P and toks[j].s == '{'):
            raise Unsupported('R17: let-else without block')
        ce = rsx.match_close(toks, j)
        k = ce + 1
        while toks[k].k in (rsx.WS, rsx.COM):
            k += 1
        end = toks[k].b if (toks[k].k == rsx.P and toks[k].s == ';') else toks[ce].b
        text = text[:end] + ' let %s = *%s__ref;' % (var, var) + text[end:]
        text = text[:m.start()] + 'let Some(%s__ref) =' % var + text[m.end():]
        n += 1


def rule_R18_let_else_continue(text):
    """Inside a loop body:   let PAT = E else { S; continue; };  REST
       ->                     if let PAT = E { REST } else { S }
    applied only when the `let` sits in tail position of the loop body (directly in it, or in a
    branch of an if/else that is the last statement of the loop body), where the two are
    equivalent.  Verus for-loops do not support `continue`."""
    n = 0
    guard = 0
    while guard < 20:
        guard += 1
        toks = rsx.tokenize(text)
        sg = rsx.sig(toks)
        loop_bodies = set(b for (_k, b) in spec.find_loops(text, 0))
        # map every '{' to its closer and parent
        stack, parent, closer = [], {}, {}
        for i in sg:
            t = toks[i]
            if t.k == rsx.P and t.s == '{':
                parent[i] = stack[-1] if stack else None
                stack.append(i)
            elif t.k == rsx.P and t.s == '}' and stack:
                closer[stack.pop()] = i
        done = False
        for pos, i in enumerate(sg):
            t = toks[i]
            if not (t.k == rsx.ID and t.s == 'let'):
                continue
            # find `else {` at depth 0 before the terminating ';'
            j = pos + 1
            els = None
            while j < len(sg):
                tj = toks[sg[j]]
                if tj.k == rsx.P and tj.s in '([':
                    j = sg.index(rsx.match_close(toks, sg[j])) + 1
                    continue
                if tj.k == rsx.P and tj.s in (';', '{', '}'):
                    break
                if tj.k == rsx.ID and tj.s == 'else' and toks[sg[j + 1]].s == '{':
                    els = j
                    break
                j += 1
            if els is None:
                continue
            eb = sg[els + 1]
            ec = closer.get(eb)
            if ec is None:
                continue
            inner = [k for k in sg if eb < k < ec]
            if len(inner) < 2 or not (toks[inner[-2]].s == 'continue' and toks[inner[-1]].s == ';'):
                continue
            after = sg[sg.index(ec) + 1]
            if toks[after].s != ';':
                continue
            # enclosing block of the let
            encl = None
            for b, c in closer.items():
                if b < i < c and (encl is None or b > encl):
                    encl = b
            if encl is None:
                continue
            ok = toks[encl].a in loop_bodies
            if not ok:
                pb = parent.get(encl)
                if pb is not None and toks[pb].a in loop_bodies:
                    # the if/else chain containing `encl` must be the last statement of the loop body
                    k = sg.index(closer[encl]) + 1
                    while toks[sg[k]].k == rsx.ID and toks[sg[k]].s == 'else':
                        k += 1
                        while not (toks[sg[k]].k == rsx.P and toks[sg[k]].s == '{'):
                            k += 1
                        k = sg.index(closer[sg[k]]) + 1
                    ok = sg[k] == closer[pb]
            if not ok:
                continue
            pat_expr = text[toks[sg[pos + 1]].a:toks[sg[els]].a]       # PAT = E
            s_block = text[toks[eb].b:toks[inner[-2]].a]                # S (without continue;)
            rest = text[toks[after].b:toks[closer[encl]].a]
            new = 'if let ' + pat_expr.rstrip() + ' {' + rest + '} else {' + s_block + '}\n'
            text = text[:t.a] + new + text[toks[closer[encl]].a:]
            n += 1
            done = True
            break
        if not done:
            break
    return text, n


class Unit:
    def __init__(self, name):
        self.name = name
        self.dir = os.path.join(VERIF, 'units', name)
        self.conf = json.load(open(os.path.join(self.dir, 'unit.json')))
        # shape variants: contracts for an earlier shape of a function (the shape it had before a
        # "fix:" commit), carrying the SAME postconditions as the current contract.  They are tried
        # only when the anchors of the current contract are lost, so that a return of the repaired
        # defect in its original form fails its named obligation instead of ending undecided.
        self.shape_specs = {}
        for spn in sorted(x for x in os.listdir(self.dir) if x.startswith('shape_') and x.endswith('.txt')):
            sp = os.path.join(self.dir, spn)
            for fs in spec.parse_specs(open(sp).read(), sp):
                fs.shape_file = spn
                self.shape_specs.setdefault((fs.kind, fs.path), []).append(fs)
        self.specs = {}
        for spn in sorted(x for x in os.listdir(self.dir) if x.startswith('specs') and x.endswith('.txt')):
            sp = os.path.join(self.dir, spn)
            for fs in spec.parse_specs(open(sp).read(), sp):
                self.specs[(fs.kind, fs.path)] = fs
        self.emitted = []
        self.cfg_log = []
        self.source_hash = None

    def assemble(self, mutate=None):
        """returns the text of the generated Verus file.  mutate: optional
        callable(path, text)->text applied to item text after extraction
        (used only by the vacuity twins)."""
        conf = self.conf
        cfg = conf.get('cfg', {'feature=enable': True})
        out = ['// GENERATED by /verif/vlib/unit.py from %s -- do not edit' % REPO,
               '#![allow(unused_imports, unused_variables, dead_code, unused_mut, unused_assignments, unreachable_code, non_snake_case, unused_parens, unused_braces)]',
               'use vstd::prelude::*;']
        for u in conf.get('uses', []):
            out.append(u)
        out.append('verus! {')
        for p in conf.get('prelude', []):
            pth = os.path.join(self.dir, p) if not p.startswith('/') else p
            if not os.path.exists(pth):
                pth = os.path.join(VERIF, 'units', p)
            out.append('// ======== trusted prelude: %s' % p)
            out.append(open(pth).read())
        out.append('// ======== extracted from the working tree')
        h = hashlib.sha256()
        used_specs = set()
        self.emitted = []
        for ent in conf['extract']:
            fpath = os.path.join(REPO, ent['file'])
            src = open(fpath).read()
            h.update(src.encode())
            items = rsx.parse_items(src)
            groups = []  # (impl header or None, [Emitted])
            for sel in ent['items']:
                kind, _, path = sel.partition(' ')
                found = rsx.find_item(items, path, kind)
                # cfg filter
                cands = []
                for it in found:
                    anc_ok = True
                    p = it.parent
                    while p is not None:
                        for (at, _a, _b) in p.attrs:
                            c = rsx.attr_cfg(at)
                            if c is not None and not rsx.cfg_eval(c, cfg):
                                anc_ok = False
                        p = p.parent
                    if not anc_ok:
                        continue
                    txt = rsx.item_text(src, it, cfg, DROP_ATTRS, self.cfg_log)
                    if txt is not None:
                        cands.append((it, txt))
                if len(cands) != 1:
                    raise spec.LostAnchor('%s: item %r found %d times in %s' % (self.name, sel, len(cands), ent['file']))
                it, txt = cands[0]
                rew = []
                in_trait_impl = it.parent is not None and it.parent.kind == 'impl' and ' for ' in it.parent.name
                rules = set(conf.get('rules', ['R1', 'R2', 'R8']))
                if kind in ('struct', 'enum'):
                    txt, n = rule_R10_serde(txt)
                    if n:
                        rew.append(('R10', n))
                if 'R2' in rules and kind == 'fn':
                    txt, n = rule_R2_debug_assert_eq(txt)
                    if n:
                        rew.append(('R2', n))
                if 'R8' in rules and kind == 'fn':
                    txt, n = rule_R8_wild_closure(txt)
                    if n:
                        rew.append(('R8', n))
                if kind == 'fn':
                    txt, n = rule_R18_let_else_continue(txt)
                    if n:
                        rew.append(('R18', n))
                    txt, n = rule_R17_ref_pattern_let_else(txt)
                    if n:
                        rew.append(('R17', n))
                fs = self.specs.get((kind, path))
                if mutate is not None:
                    txt = mutate(path, txt)
                if fs is not None:
                    used_specs.add((kind, path))
                    try:
                        txt, rw = spec.inject(txt, fs)
                    except spec.LostAnchor as lost:
                        done = False
                        for alt in self.shape_specs.get((kind, path), []):
                            try:
                                txt, rw = spec.inject(txt, alt)
                            except spec.LostAnchor:
                                continue
                            rw = list(rw) + [('SHAPE', 'anchors of the current contract lost (%s); contract for the earlier shape (%s) used' % (str(lost)[:120], alt.shape_file))]
                            fs = alt
                            done = True
                            break
                        if not done:
                            raise
                    rew.extend(rw)
                if 'R1' in rules:
                    txt, n = rule_R1_pub(txt, kind, in_trait_impl)
                    if n:
                        rew.append(('R1', n))
                line = src.count('\n', 0, it.kw_a) + 1
                em = Emitted(path, kind, ent['file'], line, txt, rew)
                lifted_ems = []
                for (lname, ltxt) in (getattr(fs, 'lifted', []) if fs is not None else []):
                    lfs = self.specs.get(('fn', lname))
                    lrew = [('R7', 'body is the closure cut from %s' % path)]
                    if mutate is not None:
                        ltxt = mutate(lname, ltxt)
                    if lfs is not None:
                        used_specs.add(('fn', lname))
                        ltxt, rw = spec.inject(ltxt, lfs)
                        lrew.extend(rw)
                    lifted_ems.append(Emitted(lname, 'fn', ent['file'], line, ltxt, lrew))
                hdr = None
                if it.parent is not None and it.parent.kind == 'impl':
                    hdr = (it.parent.a, ' '.join(it.parent.header.split()))
                    ov = conf.get('impl_header_rewrites', {}).get(hdr[1])
                    if ov:
                        hdr = (hdr[0], ov)
                if groups and groups[-1][0] == hdr and hdr is not None:
                    groups[-1][1].append(em)
                else:
                    groups.append((hdr, [em]))
                for lem in lifted_ems:
                    groups.append((None, [lem]))
            for hdr, ems in groups:
                if hdr is not None:
                    out.append(hdr[1] + ' {')
                for em in ems:
                    em.l0 = sum(x.count('\n') + 1 for x in out) + 1
                    out.append('/*@item %s %s  (%s:%d) */' % (em.kind, em.path, em.file, em.src_line))
                    out.append(em.text)
                    em.l1 = sum(x.count('\n') + 1 for x in out)
                    self.emitted.append(em)
                if hdr is not None:
                    out.append('}')
        missing = set(self.specs) - used_specs
        if missing:
            raise spec.LostAnchor('%s: specs for items that were not extracted: %s' % (self.name, sorted(missing)))
        for p in conf.get('postlude', []):
            out.append('// ======== lemmas / composition proofs: %s' % p)
            out.append(open(os.path.join(self.dir, p)).read())
        out.append('} // verus!')
        out.append('fn main() {}')
        self.source_hash = h.hexdigest()[:16]
        return '\n'.join(out) + '\n'

    def item_at_line(self, line):
        for em in self.emitted:
            if em.l0 <= line <= em.l1:
                return em
        return None
