"""Side-car contract files (units/<unit>/specs.txt) and their injection into
item text cut out of /repo.

File format (line oriented; everything not starting with '@' is payload of the
directive above it and is copied verbatim):

  ## comment
  @@ fn Sender::force_send        select an extracted item (by rsx path)
  @ret r                          name the return value  -> (r: T)
  @attr #[verifier::...]          attribute put in front of the item
  @requires [name]                clauses (each line ends with ',')
  @ensures name                   a *named obligation*
  @decreases
  @loop N                         following @invariant/@decreases/@ensures go to the Nth loop
  @invariant name
  @insert before|after [name]     <<< pattern === text >>>   (nothing removed)
  @rewrite RULE                   <<< pattern === replacement >>> (logged rewrite)
  @drop RULE                      <<< pattern >>>            (logged removal)

Patterns are matched on the token level (whitespace and comments ignored) and
must match exactly once inside the item, otherwise LostAnchor is raised.
"""
import re
from . import rsx


class SpecError(Exception):
    pass


class LostAnchor(Exception):
    pass


class FnSpec:
    def __init__(self, kind, path):
        self.kind, self.path = kind, path
        self.ret = None
        self.attrs = []
        self.clauses = []    # (where, kind, name, text) where: 0 fn-level, n loop ordinal
        self.edits = []      # (op, rule/name, pattern, text)
        self.closures = {}   # ordinal -> {'params': text|None, 'ret': text|None}
        self.iters = {}      # loop ordinal -> ghost iterator name (for-loops)
        self.blocks = []     # (where, loop ordinal, text): anchor-free proof blocks
        self.index_loops = []  # (loop ordinal, index var): R13
        self.line = 0


def parse_specs(text, fname='<spec>'):
    specs = []
    cur = None
    lines = text.split('\n')
    i = 0
    loop = 0
    while i < len(lines):
        ln = lines[i]
        s = ln.strip()
        if s.startswith('##') or not s:
            i += 1
            continue
        if s.startswith('@@'):
            m = re.match(r'@@\s+(fn|struct|enum|const|type|impl)\s+(.+)$', s)
            if not m:
                raise SpecError('%s:%d bad item selector' % (fname, i + 1))
            cur = FnSpec(m.group(1), m.group(2).strip())
            cur.line = i + 1
            specs.append(cur)
            loop = 0
            i += 1
            continue
        if cur is None:
            raise SpecError('%s:%d directive outside item' % (fname, i + 1))
        m = re.match(r'@(\w+)\s*(.*)$', s)
        if not m:
            raise SpecError('%s:%d stray text %r' % (fname, i + 1, s))
        d, arg = m.group(1), m.group(2).strip()
        i += 1
        if d == 'ret':
            cur.ret = arg
        elif d == 'attr':
            cur.attrs.append(arg)
        elif d == 'shape':
            # @shape loops=N closures=M : the number of loops / closures of the function text as
            # it is cut from the repository (before any rewrite).  A different number means the
            # function changed shape (a new loop has no invariant, a new closure no contract, and
            # the ordinals of the others shift): the proof attempt would say nothing about the
            # property either way, so the run ends undecided (exit 2) instead of raising an alarm.
            cur.shape = dict((k, int(v)) for k, v in (kv.split('=') for kv in arg.split()))
        elif d == 'loop':
            loop = int(arg)
        elif d == 'closure':
            loop = ('closure', int(arg))
            cur.closures.setdefault(int(arg), {'params': None, 'ret': None})
        elif d in ('loop_begin', 'loop_end', 'fn_begin', 'fn_end'):
            body = []
            while i < len(lines) and not lines[i].lstrip().startswith('@'):
                body.append(lines[i])
                i += 1
            cur.blocks.append((d, loop if d in ('loop_begin', 'loop_end') else 0, '\n'.join(body)))
        elif d == 'index_loop':
            cur.index_loops.append((loop, arg))
        elif d == 'values_mut_loop':
            cur.index_loops.append((loop, 'values_mut:' + arg))
        elif d == 'into_iter_loop':
            cur.index_loops.append((loop, 'into_iter:' + arg))
        elif d == 'iter':
            cur.iters[loop] = arg
        elif d == 'params':
            cur.closures[loop[1]]['params'] = arg
        elif d == 'cret':
            cur.closures[loop[1]]['ret'] = arg
        elif d == 'cprefix':
            cur.closures[loop[1]]['prefix'] = arg
        elif d in ('requires', 'ensures', 'decreases', 'invariant', 'invariant_except_break', 'recommends', 'opens_invariants', 'no_unwind'):
            body = []
            while i < len(lines) and not lines[i].lstrip().startswith('@'):
                if not lines[i].strip().startswith('##'):
                    body.append(lines[i])
                i += 1
            while body and not body[-1].strip():
                body.pop()
            cur.clauses.append((loop, d, arg or None, '\n'.join(body)))
        elif d in ('insert', 'rewrite', 'drop', 'rewrite_all', 'rewrite_any', 'lift_closure'):
            if not (i < len(lines) and lines[i].strip() == '<<<'):
                raise SpecError('%s:%d expected <<<' % (fname, i + 1))
            i += 1
            pat, rep, inrep = [], [], False
            while i < len(lines) and lines[i].strip() != '>>>':
                if lines[i].strip() == '===':
                    inrep = True
                elif inrep:
                    rep.append(lines[i])
                else:
                    pat.append(lines[i])
                i += 1
            i += 1
            cur.edits.append((d, arg, '\n'.join(pat), '\n'.join(rep)))
        else:
            raise SpecError('%s:%d unknown directive @%s' % (fname, i, d))
    return specs


# ---------------------------------------------------------------- token matching

def _sigtoks(text):
    toks = rsx.tokenize(text)
    return toks, [t for t in toks if t.k not in (rsx.WS, rsx.COM)]


def find_pattern(text, pattern, want_caps=False):
    """all (a, b) byte spans in text whose significant tokens equal pattern's.
    `$_` matches any single token; `$NAME` (upper-case) captures a balanced, non-empty run of
    tokens up to the next pattern token (usable as $NAME in a replacement)."""
    _, T = _sigtoks(text)
    _, Pt = _sigtoks(pattern)
    if not Pt:
        raise SpecError('empty pattern')
    ps = []
    k = 0
    while k < len(Pt):
        if Pt[k].s == '$' and k + 1 < len(Pt) and Pt[k + 1].s == '_':
            ps.append(None)
            k += 2
        elif Pt[k].s == '$' and k + 1 < len(Pt) and Pt[k + 1].k == rsx.ID and Pt[k + 1].s.isupper():
            ps.append(('cap', Pt[k + 1].s))
            k += 2
        else:
            ps.append(Pt[k].s)
            k += 1
    res = []
    n = len(T)

    def match(i, j, caps):
        # match pattern from j at token i; returns end index or None
        while j < len(ps):
            p = ps[j]
            if i >= n:
                return None
            if isinstance(p, tuple):
                nxt = ps[j + 1] if j + 1 < len(ps) else None
                depth = 0
                e = i
                while e < n:
                    t = T[e]
                    if depth == 0 and e > i and nxt is not None and not isinstance(nxt, tuple) and (nxt is None or t.s == nxt):
                        r = match(e, j + 1, caps)
                        if r is not None:
                            caps[p[1]] = (T[i].a, T[e - 1].b)
                            return r
                    if depth == 0 and t.k == rsx.P and t.s in (';', '{', '}'):
                        return None   # a capture never crosses a statement or block boundary (it may end at one)
                    if t.k == rsx.P and t.s in rsx.OPEN:
                        depth += 1
                    elif t.k == rsx.P and t.s in rsx.CLOSE:
                        if depth == 0:
                            return None
                        depth -= 1
                    e += 1
                return None
            if p is not None and T[i].s != p:
                return None
            i += 1
            j += 1
        return i

    for i in range(n):
        caps = {}
        if isinstance(ps[0], tuple) and i > 0 and not (T[i - 1].k == rsx.P and T[i - 1].s in (';', '{', '}', '=', '(', ',', ':')):
            continue   # a leading capture starts at an expression / statement boundary
        e = match(i, 0, caps)
        if e is not None and e > i:
            res.append((T[i].a, T[e - 1].b, {k2: text[a:b] for k2, (a, b) in caps.items()}))
    if isinstance(ps[0], tuple):
        # a leading capture can start at several boundaries: keep, for every end position, the
        # shortest match
        best = {}
        for (a, b, c) in res:
            if b not in best or a > best[b][0]:
                best[b] = (a, b, c)
        res = sorted(best.values())
    if not want_caps:
        res = [(a, b) for (a, b, _c) in res]
    return res


def _subst(repl, caps):
    for k2, v in caps.items():
        repl = repl.replace('$' + k2, v)
    return repl


def apply_edit(text, op, pattern, repl, what, nth=None):
    hits = find_pattern(text, pattern, want_caps=True)
    if nth is not None:
        if len(hits) < nth:
            raise LostAnchor('%s: pattern matched %d times (need >= %d): %r' % (what, len(hits), nth, ' '.join(pattern.split())[:80]))
        a, b, caps = hits[nth - 1]
    elif len(hits) != 1:
        raise LostAnchor('%s: pattern matched %d times (need 1): %r' % (what, len(hits), ' '.join(pattern.split())[:80]))
    else:
        a, b, caps = hits[0]
    repl = _subst(repl, caps)
    if op == 'rewrite':
        return text[:a] + repl + text[b:]
    if op == 'drop':
        return text[:a] + text[b:]
    if op == 'insert-after':
        return text[:b] + '\n' + repl + '\n' + text[b:]
    if op == 'insert-before':
        return text[:a] + repl + '\n' + text[a:]
    raise SpecError(op)


def _fn_layout(text):
    """for a fn item text: token list, index of body '{', index of '->' (or None),
    index where return type ends (where-clause start or body)."""
    toks = rsx.tokenize(text)
    s = rsx.sig(toks)
    # find 'fn'
    k = 0
    while not (toks[s[k]].k == rsx.ID and toks[s[k]].s == 'fn'):
        # skip attributes
        if toks[s[k]].s == '#':
            e = rsx.match_close(toks, s[k + 1])
            k = s.index(e) + 1
            continue
        k += 1
    arrow = None
    where = None
    body = None
    angle = 0
    j = k + 1
    while j < len(s):
        t = toks[s[j]]
        if t.k == rsx.P and t.s in '([':
            e = rsx.match_close(toks, s[j])
            j = s.index(e) + 1
            continue
        if t.k == rsx.P and t.s == '-' and toks[s[j] + 1].s == '>' and arrow is None:
            arrow = j
        if t.k == rsx.ID and t.s == 'where' and where is None:
            where = j
        if t.k == rsx.P and t.s == '{':
            body = j
            break
        if t.k == rsx.P and t.s == ';':
            body = j
            break
        j += 1
    return toks, s, arrow, where, body


LOOP_KW = ('while', 'for', 'loop')


def find_loops(text, body_a):
    """byte offsets of the '{' opening each loop body, in source order, for
    loops whose keyword lies at or after byte body_a."""
    toks = rsx.tokenize(text)
    s = rsx.sig(toks)
    res = []
    for n, i in enumerate(s):
        t = toks[i]
        if t.a < body_a or t.k != rsx.ID or t.s not in LOOP_KW:
            continue
        if t.s == 'for':
            # `for<'a>` or `impl X for Y` cannot occur at statement level in the bodies we cut
            nx = toks[s[n + 1]]
            if nx.k == rsx.P and nx.s == '<':
                continue
        # body = first '{' at depth 0 after keyword (for `for`: after the `in`)
        j = n + 1
        if t.s == 'for':
            while j < len(s) and not (toks[s[j]].k == rsx.ID and toks[s[j]].s == 'in'):
                if toks[s[j]].k == rsx.P and toks[s[j]].s in rsx.OPEN:
                    j = s.index(rsx.match_close(toks, s[j]))
                j += 1
        while j < len(s):
            tj = toks[s[j]]
            if tj.k == rsx.P and tj.s in '([':
                e = rsx.match_close(toks, s[j])
                j = s.index(e) + 1
                continue
            if tj.k == rsx.P and tj.s == '{':
                res.append((t.a, tj.a))
                break
            j += 1
    return res


CLOSURE_PREV = {'(', ',', '=', '{', ';', '>', '[', ':'}


def find_closures(text, body_a):
    """closures in source order: (params_a, params_b, body_a, body_b, is_block)
    params span excludes the bars."""
    toks = rsx.tokenize(text)
    s = rsx.sig(toks)
    res = []
    n = 0
    while n < len(s):
        t = toks[s[n]]
        if t.a >= body_a and t.k == rsx.P and t.s == '|':
            prev = toks[s[n - 1]]
            ok = (prev.k == rsx.P and prev.s in CLOSURE_PREV) or (prev.k == rsx.ID and prev.s in ('move', 'return', 'else'))
            if ok:
                # params until the matching bar
                m = n + 1
                while not (toks[s[m]].k == rsx.P and toks[s[m]].s == '|'):
                    if toks[s[m]].k == rsx.P and toks[s[m]].s in rsx.OPEN:
                        m = s.index(rsx.match_close(toks, s[m]))
                    m += 1
                pa, pb = t.b, toks[s[m]].a
                b0 = m + 1
                tb = toks[s[b0]]
                if tb.k == rsx.P and tb.s == '{':
                    e = rsx.match_close(toks, s[b0])
                    res.append((pa, pb, tb.a, toks[e].b, True))
                    n = b0 + 1  # closures nested inside are found too
                    continue
                # expression body: until , ) ; } ] at depth 0
                j = b0
                while j < len(s):
                    tj = toks[s[j]]
                    if tj.k == rsx.P and tj.s in rsx.OPEN:
                        j = s.index(rsx.match_close(toks, s[j])) + 1
                        continue
                    if tj.k == rsx.P and (tj.s in rsx.CLOSE or tj.s in ',;'):
                        break
                    j += 1
                res.append((pa, pb, tb.a, toks[s[j - 1]].b, False))
                n = b0
                continue
        n += 1
    return res


def _fn_end_pos(text, body_a):
    """where a trailing proof block goes: before the tail expression if the body has one,
    else before the closing brace."""
    toks = rsx.tokenize(text)
    bi = next(i for i, t in enumerate(toks) if t.a == body_a)
    ce = rsx.match_close(toks, bi)
    inner = [i for i in rsx.sig(toks) if bi < i < ce]
    last_end = None   # index in `inner` after the last statement end
    k = 0
    while k < len(inner):
        t = toks[inner[k]]
        if t.k == rsx.P and t.s in rsx.OPEN:
            e = rsx.match_close(toks, inner[k])
            k = inner.index(e)
            if t.s == '{':
                last_end = k + 1
            k += 1
            continue
        if t.k == rsx.P and t.s == ';':
            last_end = k + 1
        k += 1
    if last_end is None or last_end >= len(inner):
        return toks[ce].a
    return toks[inner[last_end]].a


def rule_R14_values_mut_loop(text, lp, key, what):
    toks, s, arrow, where, body = _fn_layout(text)
    loops = find_loops(text, toks[s[body]].a)
    if lp < 1 or lp > len(loops):
        raise LostAnchor('%s: loop %d not found' % (what, lp))
    kw_a, br_a = loops[lp - 1]
    header = text[kw_a:br_a]
    m = re.match(r'^for\s+([A-Za-z_][A-Za-z_0-9]*)\s+in\s+(.+?)\s*\.\s*values_mut\s*\(\s*\)\s*$', header, re.S)
    if not m:
        raise LostAnchor('%s: loop %d is not `for v in m.values_mut()`: %r' % (what, lp, header))
    var, expr = m.group(1), m.group(2)
    ltoks = rsx.tokenize(text)
    bi = next(i for i, t in enumerate(ltoks) if t.a == br_a)
    ce = rsx.match_close(ltoks, bi)
    close_a = ltoks[ce].a
    return (text[:kw_a] + 'let %s_vec = hm_keys(&%s);\n            for %s in %s_vec.iter() ' % (key, expr, key, key)
            + '{ if let Some(%s) = hm_get_mut(&mut %s, %s) {' % (var, expr, key)
            + text[br_a + 1:close_a] + '} ' + text[close_a:])


def rule_R22_into_iter_loop(text, lp, key, what):
    """for (K, V) in M { BODY }   (M: HashMap, consumed)  ->
       let KEY_vec = hm_keys_d(&M);
       for KEY in KEY_vec.iter() { if let Some(V) = M.remove(KEY) { let K = *KEY; BODY } }
    every key once, in an arbitrary order (hm_keys_d promises nothing about the order)"""
    toks, s, arrow, where, body = _fn_layout(text)
    loops = find_loops(text, toks[s[body]].a)
    if lp < 1 or lp > len(loops):
        raise LostAnchor('%s: loop %d not found' % (what, lp))
    kw_a, br_a = loops[lp - 1]
    header = text[kw_a:br_a]
    m = re.match(r'^for\s+\(\s*([A-Za-z_][A-Za-z_0-9]*)\s*,\s*([A-Za-z_][A-Za-z_0-9]*)\s*\)\s+in\s+([A-Za-z_][A-Za-z_0-9]*)\s*$', header, re.S)
    if not m:
        raise LostAnchor('%s: loop %d is not `for (k, v) in m`: %r' % (what, lp, header))
    kvar, vvar, expr = m.group(1), m.group(2), m.group(3)
    ltoks = rsx.tokenize(text)
    bi = next(i for i, t in enumerate(ltoks) if t.a == br_a)
    ce = rsx.match_close(ltoks, bi)
    close_a = ltoks[ce].a
    return (text[:kw_a] + 'let %s_vec = hm_keys_d(&%s);\n    for %s in %s_vec.iter() ' % (key, expr, key, key)
            + '{ if let Some(%s) = %s.remove(%s) { let %s = *%s;' % (vvar, expr, key, kvar, key)
            + text[br_a + 1:close_a] + '} ' + text[close_a:])


def rule_R13_index_loop(text, lp, idx, what):
    """for PAT in EXPR.iter_mut() { BODY }  ->
       let mut IDX: usize = 0; while IDX < EXPR.len() { let PAT = &mut EXPR[IDX]; BODY; IDX += 1; }"""
    toks, s, arrow, where, body = _fn_layout(text)
    loops = find_loops(text, toks[s[body]].a)
    if lp < 1 or lp > len(loops):
        raise LostAnchor('%s: loop %d not found' % (what, lp))
    kw_a, br_a = loops[lp - 1]
    header = text[kw_a:br_a]
    m = re.match(r'^for\s+([A-Za-z_][A-Za-z_0-9]*)\s+in\s+(.+?)\s*\.\s*iter_mut\s*\(\s*\)\s*$', header, re.S)
    if not m:
        raise LostAnchor('%s: loop %d is not `for x in e.iter_mut()`: %r' % (what, lp, header))
    var, expr = m.group(1), m.group(2)
    # closing brace of the loop body
    ltoks = rsx.tokenize(text)
    bi = next(i for i, t in enumerate(ltoks) if t.a == br_a)
    ce = rsx.match_close(ltoks, bi)
    close_a = ltoks[ce].a
    new = (text[:kw_a] + 'let mut %s: usize = 0;\n        while %s < %s.len() ' % (idx, idx, expr)
           + '{\n            let %s = &mut %s[%s];' % (var, expr, idx)
           + text[br_a + 1:close_a] + '    %s += 1;\n        ' % idx + text[close_a:])
    return new


def _indent(block, pad):
    return '\n'.join((pad + l.strip()) if l.strip() else '' for l in block.split('\n'))


def shape_of(text):
    """{'loops': n, 'closures': m} of a fn item text"""
    toks, sg, arrow, where, body = _fn_layout(text)
    ba = toks[sg[body]].a
    return {'loops': len(find_loops(text, ba)), 'closures': len(find_closures(text, ba))}


def inject(text, fs, oblig_lines=None, what=''):
    """Inject FnSpec fs into fn item text.  Returns (new_text, marks) where
    marks is a list of (marker_string, obligation_name) -- every named clause
    is preceded by a marker comment `/*@ob name*/` so that line numbers can be
    mapped back after assembly."""
    rewrites = []
    fs.lifted = []
    shape = getattr(fs, 'shape', None)
    if shape is not None and fs.kind == 'fn':
        have = shape_of(text)
        if have != shape:
            raise LostAnchor('%s: shape changed (loops/closures %s -> %s): contract written for another shape' % (fs.path, shape, have))
    for (op, arg, pat, rep) in fs.edits:
        if op == 'lift_closure':
            rule, _, fname = arg.partition(' ')
            repl, _, sig = rep.partition('\n+++\n')
            hits = find_pattern(text, pat)
            if len(hits) != 1:
                raise LostAnchor('%s @lift_closure: pattern matched %d times: %r' % (fs.path, len(hits), pat.strip()[:60]))
            a, b = hits[0]
            ltoks = rsx.tokenize(text)
            oi = next(i for i, t in enumerate(ltoks) if t.b == b)   # the '(' ending the pattern
            ce = rsx.match_close(ltoks, oi)
            inner = text[ltoks[oi].b:ltoks[ce].a]
            cl = find_closures('(' + inner + ')', 0)
            if not cl or not cl[0][4]:
                raise LostAnchor('%s @lift_closure: argument is not a block closure' % fs.path)
            (pa, pb, ba, bb, _blk) = cl[0]
            body = ('(' + inner + ')')[ba:bb]
            text = text[:a] + repl.strip() + text[ltoks[ce].b:]
            fs.lifted.append((fname.strip(), sig.strip() + ' ' + body))
            rewrites.append((rule, 'closure passed to %s lifted into fn %s; call replaced by %s' % (' '.join(pat.split()), fname.strip(), ' '.join(repl.split())[:60])))
            continue
        if op == 'insert':
            mode, _, nm = arg.partition(' ')
            if mode not in ('before', 'after'):
                raise SpecError('@insert needs before|after')
            mm = re.search(r'nth=(\d+)', nm)
            text = apply_edit(text, 'insert-' + mode, pat, rep, '%s @insert' % fs.path, int(mm.group(1)) if mm else None)
        elif op == 'rewrite':
            text = apply_edit(text, 'rewrite', pat, rep, '%s @rewrite %s' % (fs.path, arg))
            rewrites.append((arg, ' '.join(pat.split())[:100]))
        elif op == 'rewrite_any':
            # like rewrite_all, but the std expression need not occur at all (zero or more hits)
            hits = find_pattern(text, pat, want_caps=True)
            for (a, b, caps) in sorted(hits, reverse=True):
                text = text[:a] + _subst(rep, caps) + text[b:]
            if hits:
                rewrites.append((arg, '%dx %s' % (len(hits), ' '.join(pat.split())[:100])))
        elif op == 'rewrite_all':
            hits = find_pattern(text, pat, want_caps=True)
            if not hits:
                raise LostAnchor('%s @rewrite_all %s: pattern not found: %r' % (fs.path, arg, ' '.join(pat.split())[:80]))
            for (a, b, caps) in sorted(hits, reverse=True):
                text = text[:a] + _subst(rep, caps) + text[b:]
            rewrites.append((arg, '%dx %s' % (len(hits), ' '.join(pat.split())[:100])))
        elif op == 'drop':
            text = apply_edit(text, 'drop', pat, '', '%s @drop %s' % (fs.path, arg))
            rewrites.append((arg, ' '.join(pat.split())[:100]))
    if fs.kind != 'fn':
        return ''.join(a + '\n' for a in fs.attrs) + text, rewrites
    for (lp, idx) in fs.index_loops:
        if idx.startswith('values_mut:'):
            text = rule_R14_values_mut_loop(text, lp, idx.split(':', 1)[1], fs.path)
            rewrites.append(('R14', 'loop %d: for V in M.values_mut() -> let ks = hm_keys(&M); for k in ks.iter() { if let Some(V) = hm_get_mut(&mut M, k) {..} }' % lp))
        elif idx.startswith('into_iter:'):
            text = rule_R22_into_iter_loop(text, lp, idx.split(':', 1)[1], fs.path)
            rewrites.append(('R22', 'loop %d: for (K, V) in M (HashMap consumed) -> let ks = hm_keys_d(&M); for k in ks.iter() { if let Some(V) = M.remove(k) { let K = *k; .. } }' % lp))
        else:
            text = rule_R13_index_loop(text, lp, idx, fs.path)
            rewrites.append(('R13', 'loop %d: for .. in X.iter_mut() -> index loop over X' % lp))

    # loops first (offsets further down the text), then the signature
    toks, s, arrow, where, body = _fn_layout(text)
    if body is None:
        raise LostAnchor('%s: no body' % fs.path)
    body_a = toks[s[body]].a
    loops = find_loops(text, body_a)
    by_loop = {}
    inserts = []  # (byte offset, text)
    for (lp, kind, name, cl) in fs.clauses:
        by_loop.setdefault(lp, []).append((kind, name, cl))
    closures = find_closures(text, body_a) if fs.closures else []
    for n, cinfo in fs.closures.items():
        if n > len(closures):
            raise LostAnchor('%s: closure %d not found (function has %d closures)' % (fs.path, n, len(closures)))
        (pa, pb, ba, bb, is_block) = closures[n - 1]
        cls = by_loop.get(('closure', n), [])
        hdr = ''
        if cinfo['ret']:
            hdr += ' -> (' + cinfo['ret'] + ')'
        spec_txt = _render(cls, fs.path, 'closure%d' % n, '                ') if cls else ''
        prefix = cinfo.get('prefix') or ''
        if is_block:
            inserts.append((ba, hdr + ('\n' + spec_txt + '\n            ' if spec_txt else ' ')))
            if prefix:
                inserts.append(((ba + 1, ba + 1), ' ' + prefix + ' '))
        else:
            inserts.append(((ba, ba), hdr + ('\n' + spec_txt + '\n            ' if spec_txt else ' ') + '{ ' + prefix + ' '))
            inserts.append(((bb, bb), ' }'))
        if cinfo['params'] is not None:
            inserts.append(((pa, pb), cinfo['params']))
    for (bwhere, lp, blk) in fs.blocks:
        if bwhere == 'loop_begin':
            if lp > len(loops) or lp < 1:
                raise LostAnchor('%s: loop %d not found' % (fs.path, lp))
            pos = loops[lp - 1][1] + 1
            inserts.append(((pos, pos), '\n' + blk + '\n'))
        elif bwhere == 'loop_end':
            if lp > len(loops) or lp < 1:
                raise LostAnchor('%s: loop %d not found' % (fs.path, lp))
            ltoks = rsx.tokenize(text)
            bi = next(i for i, t in enumerate(ltoks) if t.a == loops[lp - 1][1])
            pos = ltoks[rsx.match_close(ltoks, bi)].a
            inserts.append(((pos, pos), '\n' + blk + '\n'))
        elif bwhere == 'fn_begin':
            inserts.append(((body_a + 1, body_a + 1), '\n' + blk + '\n'))
        else:
            endpos = _fn_end_pos(text, body_a)
            inserts.append(((endpos, endpos), '\n' + blk + '\n'))
    for lp, nm in fs.iters.items():
        if lp > len(loops):
            raise LostAnchor('%s: loop %d not found' % (fs.path, lp))
        kw_a = loops[lp - 1][0]
        m = re.compile(r'\bin\b').search(text, kw_a)
        if not text.startswith('for', kw_a) or m is None or m.start() > loops[lp - 1][1]:
            raise LostAnchor('%s: loop %d is not a for-loop' % (fs.path, lp))
        inserts.append(((m.end(), m.end()), ' %s:' % nm))
    for lp, cls in by_loop.items():
        if lp == 0 or isinstance(lp, tuple):
            continue
        if lp > len(loops):
            raise LostAnchor('%s: loop %d not found (function has %d loops)' % (fs.path, lp, len(loops)))
        inserts.append((loops[lp - 1][1], _render(cls, fs.path, 'loop%d' % lp, '            ')))
    if getattr(fs, 'vacuity_twin', False):
        inserts.append(((body_a + 1, body_a + 1), ' assert(false); /*@ob %s::VACUITY_TWIN */ ' % fs.path))
    fn_cls = by_loop.get(0, [])
    if fn_cls:
        inserts.append((body_a, _render(fn_cls, fs.path, '', '        ')))
    if fs.ret:
        if arrow is None:
            raise LostAnchor('%s: @ret on a function without return type' % fs.path)
        ra = toks[s[arrow] + 1].b  # after '>'
        rb = toks[s[where]].a if where is not None else body_a
        # trim trailing whitespace of the type
        ty = text[ra:rb]
        inserts.append((rb, None))  # placeholder to keep ordering simple
        inserts.pop()
        new_sig = ' (' + fs.ret + ': ' + ty.strip() + ')' + ('\n    ' if where is not None else ' ')
        inserts.append(((ra, rb), new_sig))
    # apply from the back
    def key(x):
        return x[0][0] if isinstance(x[0], tuple) else x[0]
    inserts = [x for _i, x in sorted(enumerate(inserts), key=lambda t: (key(t[1]), t[0]), reverse=True)]
    for pos, ins in inserts:
        if isinstance(pos, tuple):
            text = text[:pos[0]] + ins + text[pos[1]:]
        elif ins.startswith(' ->') or ins == ' ':
            text = text[:pos] + ins + text[pos:]
        else:
            text = text[:pos] + '\n' + ins + '\n    ' + text[pos:]
    return ''.join(a + '\n' for a in fs.attrs) + text, rewrites


def _render(cls, path, scope, pad):
    out = []
    order = ['requires', 'recommends', 'invariant_except_break', 'invariant', 'ensures', 'decreases', 'opens_invariants', 'no_unwind']
    for kind in order:
        group = [(n, c) for (k, n, c) in cls if k == kind]
        if not group:
            continue
        out.append(pad + kind)
        for (name, cl) in group:
            nm = '::'.join(x for x in (path, scope, kind if not name else name) if x)
            for line in cl.split('\n'):
                if line.strip():
                    out.append(pad + '    ' + line.strip() + ' /*@ob ' + nm + ' */')
    return '\n'.join(out)
