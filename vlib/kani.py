"""Kani leg: harness modules appended to a scratch copy of the real crates.

Mechanical edits of the scratch copy (all logged in the evidence file):
  K1  thread_local! LOCAL_SPAN_STACK -> static single-thread lazy cell with the same try_with
      (Kani has one thread; a lazy TLS whose value has a destructor crashes kani-compiler)
  K2  dev-dependencies / benches / rust-toolchain.toml removed, cargo source replaced by /verif/vendor
  K3  `#[cfg(kani)] #[path = ".."] mod verif_*;` appended to the crate roots named in harnesses.json
  K5  visibility of the private items listed in harnesses.json widened to pub(crate)
Nothing is written to /repo.
"""
import json
import os
import re
import shutil
import subprocess
import time
from concurrent.futures import ThreadPoolExecutor

VERIF = os.path.dirname(os.path.dirname(os.path.abspath(__file__)))
REPO = os.environ.get('VERIF_REPO', '/repo')
VENDOR = os.path.join(VERIF, 'vendor')


class KFailure:
    def __init__(self, obligation, message, rendered, replay_test=None):
        self.kind = 'kani'
        self.obligation = obligation
        self.fn = obligation
        self.message = message
        self.rendered = rendered
        self.line = 0
        self.replay_test = replay_test

    def as_dict(self):
        return {'kind': 'kani', 'obligation': self.obligation, 'message': self.message, 'verifier_output': self.rendered}


class KResult:
    def __init__(self, name, spec):
        self.name, self.spec = name, spec
        self.status = 'ok'   # ok | failed | infra
        self.infra = None
        self.failures = []
        self.n_checks = 0
        self.wall_s = 0.0
        self.cmd = ''
        self.trusted = []
        self.checks_failed = []

    def obligation_names(self):
        return ['kani::%s::%s' % (self.name, o) for o in self.spec.get('obligations', ['all_assertions'])]

    def failed_names(self):
        return [f.obligation for f in self.failures]


def load_specs():
    return json.load(open(os.path.join(VERIF, 'kani', 'harnesses.json')))


K1_OLD = re.compile(r'thread_local!\s*\{\s*pub static LOCAL_SPAN_STACK: Rc<RefCell<LocalSpanStack>> = Rc::new\(RefCell::new\(LocalSpanStack::with_capacity\(DEFAULT_SPAN_STACK_SIZE\)\)\);\s*\}')
K1_NEW = '''// K1 (verif): single-threaded stand-in for the thread_local! (same try_with signature)
pub struct VerifLocalKey;
pub static LOCAL_SPAN_STACK: VerifLocalKey = VerifLocalKey;
static mut VERIF_LOCAL_SPAN_STACK: Option<Rc<RefCell<LocalSpanStack>>> = None;
impl VerifLocalKey {
    pub fn try_with<F, R>(&'static self, f: F) -> Result<R, std::thread::AccessError>
    where F: FnOnce(&Rc<RefCell<LocalSpanStack>>) -> R {
        unsafe {
            if (*std::ptr::addr_of!(VERIF_LOCAL_SPAN_STACK)).is_none() {
                *std::ptr::addr_of_mut!(VERIF_LOCAL_SPAN_STACK) = Some(Rc::new(RefCell::new(LocalSpanStack::with_capacity(VERIF_STACK_CAPACITY))));
            }
            Ok(f((*std::ptr::addr_of!(VERIF_LOCAL_SPAN_STACK)).as_ref().unwrap()))
        }
    }
}
impl VerifLocalKey {
    // LocalKey::with panics when the thread-local is being / has been destroyed (C07)
    pub fn with<F, R>(&'static self, f: F) -> R
    where F: FnOnce(&Rc<RefCell<LocalSpanStack>>) -> R {
        kani::assert(false, "thread_local_access_survives_teardown: LocalKey::with panics while thread-local storage is torn down; use try_with");
        self.try_with(f).unwrap()
    }
}
pub const VERIF_STACK_CAPACITY: usize = 8;
'''


def prepare_scratch(work, log):
    """copy the crates, apply K1..K5; returns the directory"""
    d = os.path.join(work, 'krepo')
    if os.path.exists(d):
        return d
    subprocess.run(['rsync', '-a', '--exclude', 'target', '--exclude', '.git', '--exclude', 'rust-toolchain.toml', REPO + '/', d + '/'], check=True)
    specs = load_specs()
    # K2
    for crate in ('fastrace', 'fastrace-jaeger', 'fastrace-datadog', 'fastrace-opentelemetry', 'fastrace-futures', 'fastrace-macro'):
        p = os.path.join(d, crate, 'Cargo.toml')
        if not os.path.exists(p):
            continue
        s = open(p).read()
        out_lines, skip = [], False
        for ln in s.split('\n'):
            if re.match(r'^\s*\[', ln):
                skip = bool(re.match(r'^\s*\[(dev-dependencies|\[bench\]|\[example\]|\[test\])', ln))
            if not skip:
                out_lines.append(ln)
        s2 = '\n'.join(out_lines)
        if s2 != s:
            log.append('K2 %s/Cargo.toml: dev-dependencies/bench sections removed' % crate)
        open(p, 'w').write(s2)
        for sub in ('benches', 'examples', 'tests'):
            shutil.rmtree(os.path.join(d, crate, sub), ignore_errors=True)
    os.makedirs(os.path.join(d, '.cargo'), exist_ok=True)
    open(os.path.join(d, '.cargo', 'config.toml'), 'w').write(
        '[source.crates-io]\nreplace-with = "verif-vendor"\n[source.verif-vendor]\ndirectory = "%s"\n[net]\noffline = true\n' % VENDOR)
    log.append('K2 cargo source replaced by %s' % VENDOR)
    # K1
    p = os.path.join(d, 'fastrace/src/local/local_span_stack.rs')
    s = open(p).read()
    s2, n = K1_OLD.subn(K1_NEW, s)
    if n != 1:
        raise RuntimeError('K1: thread_local LOCAL_SPAN_STACK not found in its expected form (lost anchor)')
    open(p, 'w').write(s2)
    log.append('K1 LOCAL_SPAN_STACK thread_local -> static single-thread cell (capacity 8 instead of 4096)')
    # K6: rand::random() goes through rand's thread-local rng (a lazy TLS with a destructor:
    # kani-compiler ICE); in the scratch copy every rand::random() of id.rs is kani::any()
    p = os.path.join(d, 'fastrace/src/collector/id.rs')
    s = open(p).read()
    n6 = s.count('rand::random()')
    if n6:
        s = s.replace('rand::random()', 'verif_random()')
        s += "\npub(crate) fn verif_random<T: kani::Arbitrary>() -> T { kani::any() }\n"
        open(p, 'w').write(s)
    log.append('K6 id.rs: %d x rand::random() -> kani::any()' % n6)
    # K5
    from . import rsx
    for ent in specs.get('widen', []):
        p = os.path.join(d, ent['file'])
        src = open(p).read()
        ins = []
        items = rsx.parse_items(src)
        for fpath in ent.get('fns', []):
            found = [it for it in rsx.find_item(items, fpath, 'fn')]
            if len(found) != 1:
                raise RuntimeError('K5: fn %s found %d times in %s (lost anchor)' % (fpath, len(found), ent['file']))
            if not found[0].vis:
                ins.append(found[0].kw_a)
            log.append('K5 %s: fn %s widened to pub(crate)' % (ent['file'], fpath))
        for fld in ent.get('fields', []):
            sname, fname = fld.split('.')
            found = rsx.find_item(items, sname, 'struct')
            if len(found) != 1:
                raise RuntimeError('K5: struct %s found %d times in %s (lost anchor)' % (sname, len(found), ent['file']))
            st = found[0]
            body = src[st.body_a:st.body_b]
            m = re.search(r'(?m)^(\s*)(%s\s*:)' % re.escape(fname), body)
            if not m:
                raise RuntimeError('K5: field %s not found (lost anchor)' % fld)
            ins.append(st.body_a + m.start(2))
            log.append('K5 %s: field %s widened to pub(crate)' % (ent['file'], fld))
        for pos in sorted(ins, reverse=True):
            src = src[:pos] + 'pub(crate) ' + src[pos:]
        open(p, 'w').write(src)
    # K7: fastrace-futures' adapters are compiled as a module of the fastrace crate (their source
    # text copied verbatim except for the two `use futures_*` lines), so that the harness can use
    # the recording stub of fastrace's private command senders.  futures-core / futures-sink are NOT
    # linked (linking those no_std crates makes Kani's __rust_dealloc model report spurious layout
    # mismatches); the Stream and Sink traits are re-declared with the signatures of futures 0.3.
    fsrc = open(os.path.join(d, 'fastrace-futures/src/lib.rs')).read()
    n1 = fsrc.count('use futures_core::Stream;')
    n2 = fsrc.count('use futures_sink::Sink;')
    if n1 == 1 and n2 == 1:
        fsrc = fsrc.replace('use futures_core::Stream;', 'use crate::verif_futures_traits::Stream;').replace('use futures_sink::Sink;', 'use crate::verif_futures_traits::Sink;')
        fsrc = fsrc.replace('#![doc = include_str!("../README.md")]', '')
        open(os.path.join(d, 'fastrace/src/verif_futures_src.rs'), 'w').write(fsrc)
        p = os.path.join(d, 'fastrace/src/lib.rs')
        s = open(p).read()
        s += """
#[cfg(kani)]
extern crate self as fastrace;
#[cfg(all(kani, feature = "enable"))]
pub mod verif_futures_traits {
    use std::pin::Pin;
    use std::task::{Context, Poll};
    pub trait Stream {
        type Item;
        fn poll_next(self: Pin<&mut Self>, cx: &mut Context<'_>) -> Poll<Option<Self::Item>>;
    }
    pub trait Sink<Item> {
        type Error;
        fn poll_ready(self: Pin<&mut Self>, cx: &mut Context<'_>) -> Poll<Result<(), Self::Error>>;
        fn start_send(self: Pin<&mut Self>, item: Item) -> Result<(), Self::Error>;
        fn poll_flush(self: Pin<&mut Self>, cx: &mut Context<'_>) -> Poll<Result<(), Self::Error>>;
        fn poll_close(self: Pin<&mut Self>, cx: &mut Context<'_>) -> Poll<Result<(), Self::Error>>;
    }
}
#[cfg(all(kani, feature = "enable"))]
pub mod verif_futures_src;
"""
        open(p, 'w').write(s)
        log.append('K7 fastrace-futures/src/lib.rs copied into the fastrace crate as module verif_futures_src; Stream/Sink traits re-declared (futures 0.3 signatures) instead of linking futures-core/futures-sink')
    else:
        log.append('K7 NOT applied: fastrace-futures/src/lib.rs does not import Stream/Sink in the expected form (stream/sink harnesses will report undecided)')
    # K3
    for ent in specs.get('modules', []):
        p = os.path.join(d, ent['append_to'])
        s = open(p).read()
        s += '\n#[cfg(%s)]\n#[path = "%s"]\nmod %s;\n' % (ent.get('cfg', 'kani'), os.path.join(VERIF, 'kani', ent['file']), ent['mod'])
        open(p, 'w').write(s)
        log.append('K3 %s: harness module %s appended' % (ent['append_to'], ent['file']))
    return d


def _tree_hash(krepo):
    import hashlib
    h = hashlib.sha256()
    roots = [os.path.join(krepo, c, 'src') for c in ('fastrace', 'fastrace-futures', 'fastrace-jaeger', 'fastrace-datadog', 'fastrace-opentelemetry', 'fastrace-macro')]
    roots += [os.path.join(VERIF, 'kani'), os.path.join(krepo, 'fastrace', 'Cargo.toml'), os.path.join(krepo, 'Cargo.lock')]
    for root in roots:
        if os.path.isfile(root):
            h.update(open(root, 'rb').read())
            continue
        for dp, dn, fn in sorted(os.walk(root)):
            dn.sort()
            for f in sorted(fn):
                h.update(f.encode())
                h.update(open(os.path.join(dp, f), 'rb').read())
    return h.hexdigest()


_TREE_HASH = {}


def run_one(name, spec, krepo, tier):
    """results are cached under /verif/.cache/kani keyed by a hash of every source file of the
    scratch crates, the harness files and the harness spec: the same harness serves several
    properties and CBMC runs take minutes.  A cache hit is marked in the evidence."""
    if krepo not in _TREE_HASH:
        _TREE_HASH[krepo] = _tree_hash(krepo)
    import hashlib
    key = hashlib.sha256((_TREE_HASH[krepo] + json.dumps(spec, sort_keys=True) + name + tier + 'kani-0.68').encode()).hexdigest()[:32]
    cdir = os.path.join(VERIF, '.cache', 'kani')
    cfile = os.path.join(cdir, key + '.json')
    if os.path.exists(cfile) and not os.environ.get('VERIF_NO_CACHE'):
        try:
            d = json.load(open(cfile))
            r = KResult(name, spec)
            r.status, r.infra, r.n_checks, r.wall_s, r.cmd = d['status'], d['infra'], d['n_checks'], d['wall_s'], d['cmd']
            r.trusted = d['trusted']
            r.failures = [KFailure(f['obligation'], f['message'], f['rendered'], f.get('replay_test')) for f in d['failures']]
            r.cached = True
            return r
        except Exception:
            pass
    r = _run_one(name, spec, krepo, tier)
    if r.status in ('ok', 'failed'):
        os.makedirs(cdir, exist_ok=True)
        json.dump({'status': r.status, 'infra': r.infra, 'n_checks': r.n_checks, 'wall_s': r.wall_s, 'cmd': r.cmd, 'trusted': r.trusted,
                   'failures': [{'obligation': f.obligation, 'message': f.message, 'rendered': f.rendered, 'replay_test': f.replay_test} for f in r.failures]}, open(cfile, 'w'))
    return r


def _run_one(name, spec, krepo, tier):
    r = KResult(name, spec)
    t0 = time.time()
    pkg = spec.get('package', 'fastrace')
    feats = spec.get('features', 'enable')
    cmd = ['cargo', 'kani', '-p', pkg, '-Z', 'function-contracts', '-Z', 'stubbing', '--harness', spec['harness'], '--exact', '--output-format', 'terse']
    if feats:
        cmd += ['--features', feats]
    cmd += spec.get('args', [])
    r.cmd = 'cargo kani -p %s %s-Z function-contracts -Z stubbing --harness %s' % (pkg, ('--features %s ' % feats) if feats else '', spec['harness'])
    timeout = spec.get('timeout_thorough', 2400) if tier == 'thorough' else spec.get('timeout', 900)
    mem_kb = int(os.environ.get('VERIF_KANI_MEM_KB', '20000000'))
    env = dict(os.environ, CARGO_NET_OFFLINE='true', CARGO_TARGET_DIR=os.path.join(os.path.dirname(krepo), 'ktarget-%s' % (feats or 'nofeat')))
    env.pop('RUSTUP_TOOLCHAIN', None)
    import signal
    proc = subprocess.Popen(['bash', '-c', 'ulimit -v %d; exec "$@"' % mem_kb, 'kani'] + cmd, cwd=krepo, stdout=subprocess.PIPE, stderr=subprocess.PIPE, text=True, env=env, start_new_session=True)
    try:
        so, se = proc.communicate(timeout=timeout)
    except subprocess.TimeoutExpired:
        try:
            os.killpg(proc.pid, signal.SIGKILL)   # cargo-kani, kani-driver and cbmc are all in this session
        except Exception:
            pass
        proc.communicate()
        r.status, r.infra = 'infra', 'timed out after %ds' % timeout
        r.wall_s = time.time() - t0
        return r

    class _P:
        pass
    p = _P()
    p.stdout, p.stderr, p.returncode = so, se, proc.returncode
    out = p.stdout + '\n' + p.stderr
    r.wall_s = time.time() - t0
    r.raw = out
    m = re.search(r'\*\* (\d+) of (\d+) failed', out)
    if m:
        r.n_checks = int(m.group(2))
    if 'VERIFICATION:- SUCCESSFUL' in out:
        r.status = 'ok'
    elif 'VERIFICATION:- FAILED' in out:
        r.status = 'failed'
        fails = re.findall(r'Failed Checks: (.*)', out)
        # unwinding assertion failures mean the bound is too small: undecided, not a violation
        if any('unwinding assertion' in f for f in fails) and all(('unwinding assertion' in f) for f in fails):
            r.status, r.infra = 'infra', 'unwinding bound too small: ' + '; '.join(fails[:3])
            return r
        tail = '\n'.join(out.strip().split('\n')[-40:])
        if not fails or 'run out of memory' in out or 'CBMC failed' in out:
            r.status, r.infra = 'infra', 'CBMC did not finish (out of memory / crashed): ' + ' | '.join(out.strip().split('\n')[-6:])
            return r
        # Kani's counterexample: the same harness once more with concrete playback; the values it
        # prints are the bytes of every kani::any() of the harness, in order, that drive the real
        # code (scratch copy, stubs as listed) into the failed check
        playback = None
        try:
            pcmd = cmd[:cmd.index('--harness')] + ['-Z', 'concrete-playback', '--concrete-playback=print'] + cmd[cmd.index('--harness'):]
            pp = subprocess.Popen(['bash', '-c', 'ulimit -v %d; exec "$@"' % mem_kb, 'kani'] + pcmd, cwd=krepo, stdout=subprocess.PIPE, stderr=subprocess.PIPE, text=True, env=env, start_new_session=True)
            try:
                pso, pse = pp.communicate(timeout=timeout)
                tests = re.findall(r'```\n(.*?)```', pso, re.S)
                if tests:
                    playback = {'how': 'cargo kani ... -Z concrete-playback --concrete-playback=print --harness %s (second run of the failed harness)' % spec['harness'],
                                'meaning': 'concrete_vals are the little-endian bytes of each kani::any() of the harness, in call order; with them the real code of the scratch crate reaches the failed check',
                                'tests': [t.strip() for t in tests[:3]]}
            except subprocess.TimeoutExpired:
                try:
                    os.killpg(pp.pid, signal.SIGKILL)
                except Exception:
                    pass
                pp.communicate()
        except Exception:
            playback = None
        for f in fails:
            if 'unwinding assertion' in f:
                continue
            r.failures.append(KFailure('kani::%s::%s' % (name, _ob_for(f, spec)), f.strip(), tail, replay_test=playback))
        r.checks_failed = fails
    else:
        r.status = 'infra'
        r.infra = 'no verification result (exit %d): %s' % (p.returncode, '\n'.join(out.strip().split('\n')[-15:]))
    for st in re.findall(r'- Stub: (.*)', out):
        pass
    r.trusted = ['kani stub: %s' % s for s in spec.get('stubs', [])] + ['kani: %s' % s for s in spec.get('assumes', [])]
    return r


def _ob_for(failmsg, spec):
    # assertion messages are written as "ob_name: text" in the harnesses
    m = re.match(r'\s*([A-Za-z_0-9]+):', failmsg)
    if m and m.group(1) in spec.get('obligations', []):
        return m.group(1)
    if spec.get('default_obligation'):
        # a harness whose single obligation is "this call sequence does not panic": any failed
        # check (a panic inside std, e.g. RefCell's already-borrowed) is that obligation
        return spec['default_obligation']
    return 'safety(%s)' % ' '.join(failmsg.split())[:80] if spec.get('obligations') else 'all_assertions'


def run_harnesses(ids, tier, work):
    specs = load_specs()['harnesses']
    log = []
    try:
        krepo = prepare_scratch(work, log)
    except Exception as e:
        res = []
        for i in ids:
            r = KResult(i, specs.get(i, {}))
            r.status, r.infra = 'infra', 'scratch preparation failed: %s' % e
            res.append(r)
        return res
    todo = [i for i in ids if tier == 'thorough' or specs[i].get('tier', 'quick') == 'quick']
    res = []
    # one warm-up build per feature set so that parallel harness runs do not race on cargo's lock
    by_feat = {}
    for i in todo:
        by_feat.setdefault((specs[i].get('package', 'fastrace'), specs[i].get('features', 'enable')), []).append(i)
    for key, lst in by_feat.items():
        first = run_one(lst[0], specs[lst[0]], krepo, tier)
        first.edits = log
        res.append(first)
        with ThreadPoolExecutor(max_workers=int(os.environ.get('VERIF_KANI_JOBS', '4'))) as ex:
            for r in ex.map(lambda i: run_one(i, specs[i], krepo, tier), lst[1:]):
                r.edits = log
                res.append(r)
    return res
