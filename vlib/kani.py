"""Kani leg (filled in below)."""


def run_harnesses(ids, tier, work):
    return []
