// Kani harnesses for the API layer (span.rs, id.rs, collector commands).  Appended to the scratch
// copy of the real crate as `crate::verif_api`; the code under test is the real code.
#![allow(static_mut_refs, dead_code, unused_imports)]
use crate::collector::command::CollectCommand;
use crate::collector::global_collector::NOT_SAMPLED_COLLECT_ID;
use crate::collector::{CollectTokenItem, SpanContext, SpanId, SpanSet, TraceId};
use crate::local::raw_span::RawKind;
use crate::Span;

// ---- recording stub for the two command senders: a compact, fixed-size summary of each command
// (kind, path, ids, first token items, the submitted span's ids) -- cheap for CBMC
#[derive(Clone, Copy)]
pub struct Rec {
    pub forced: bool,
    pub kind: u8, // 1 start, 2 drop, 3 commit, 4 submit
    pub collect_id: usize,
    pub token_len: usize,
    pub tok: [CollectTokenItem; 3],
    pub set_kind: u8, // 1 Span, 2 LocalSpansInner, 3 SharedLocalSpans
    pub span_id: SpanId,
    pub span_parent: SpanId,
    pub raw_kind: u8, // 1 span 2 event 3 properties
    pub n_local: usize,
    pub has_props: bool,
    pub begin: u64, // the submitted span's begin / end instants (raw clock values)
    pub end: u64,
}

const TOK0: CollectTokenItem = CollectTokenItem { trace_id: TraceId(0), parent_id: SpanId(0), collect_id: 0, is_root: false, is_sampled: false };
const REC0: Rec = Rec { forced: false, kind: 0, collect_id: 0, token_len: 0, tok: [TOK0; 3], set_kind: 0, span_id: SpanId(0), span_parent: SpanId(0), raw_kind: 0, n_local: 0, has_props: false, begin: 0, end: 0 };
pub static mut LOG: [Rec; 8] = [REC0; 8];
pub static mut NLOG: usize = 0;

fn record(forced: bool, cmd: CollectCommand) {
    let mut r = REC0;
    r.forced = forced;
    match &cmd {
        CollectCommand::StartCollect(c) => { r.kind = 1; r.collect_id = c.collect_id; }
        CollectCommand::DropCollect(c) => { r.kind = 2; r.collect_id = c.collect_id; }
        CollectCommand::CommitCollect(c) => { r.kind = 3; r.collect_id = c.collect_id; }
        CollectCommand::SubmitSpans(s) => {
            r.kind = 4;
            r.token_len = s.collect_token.len();
            if r.token_len > 0 { r.tok[0] = s.collect_token[0]; }
            if r.token_len > 1 { r.tok[1] = s.collect_token[1]; }
            if r.token_len > 2 { r.tok[2] = s.collect_token[2]; }
            match &s.spans {
                SpanSet::Span(raw) => {
                    r.set_kind = 1; r.span_id = raw.id; r.span_parent = raw.parent_id;
                    r.raw_kind = match raw.raw_kind { RawKind::Span => 1, RawKind::Event => 2, RawKind::Properties => 3 };
                    r.has_props = raw.properties.is_some();
                    r.begin = unsafe { std::mem::transmute::<fastant::Instant, u64>(raw.begin_instant) };
                    r.end = unsafe { std::mem::transmute::<fastant::Instant, u64>(raw.end_instant) };
                }
                SpanSet::LocalSpansInner(ls) => { r.set_kind = 2; r.n_local = ls.spans.len(); if r.n_local > 0 { r.span_id = ls.spans[0].id; r.span_parent = ls.spans[0].parent_id; } }
                SpanSet::SharedLocalSpans(ls) => { r.set_kind = 3; r.n_local = ls.spans.len(); }
            }
        }
    }
    unsafe {
        if NLOG < 8 { LOG[NLOG] = r; }
        NLOG += 1;
    }
    std::mem::forget(cmd); // destructors of the payload are not under test here
}

pub fn rec_send(cmd: CollectCommand) {
    record(false, cmd)
}

pub fn rec_force(cmd: CollectCommand) {
    record(true, cmd)
}

pub fn stub_next_id() -> SpanId {
    SpanId(kani::any())
}

// the clock: any value except ZERO, which the code itself uses as the "not finished yet" sentinel
// (a log of the reads kept in a static made unrelated harnesses report spurious pointer failures)
pub fn stub_now() -> fastant::Instant {
    let v: u64 = kani::any();
    kani::assume(v != 0);
    unsafe { std::mem::transmute::<u64, fastant::Instant>(v) }
}

pub fn stub_ready() -> bool {
    true
}

pub fn stub_not_ready() -> bool {
    false
}

fn any_ctx() -> SpanContext {
    SpanContext { trace_id: TraceId(kani::any()), span_id: SpanId(kani::any()), sampled: kani::any() }
}

fn nlog() -> usize { unsafe { NLOG } }
fn rec(i: usize) -> Rec { unsafe { LOG[i] } }

#[kani::proof]
#[kani::stub(crate::collector::global_collector::send_command, rec_send)]
#[kani::stub(crate::collector::global_collector::force_send_command, rec_force)]
#[kani::stub(crate::collector::SpanId::next_id, stub_next_id)]
#[kani::stub(fastant::Instant::now, stub_now)]
#[kani::stub(crate::collector::global_collector::reporter_ready, stub_ready)]
pub fn root_lifecycle() {
    let ctx = any_ctx();
    let root = Span::root("root", ctx);
    let own = SpanContext::from_span(&root);
    kani::assert(own.is_some(), "from_span_identifies_span: a recording span has a context");
    let own = own.unwrap();
    kani::assert(own.trace_id == ctx.trace_id && own.sampled == ctx.sampled, "from_span_identifies_span: trace id and sampling flag of the root's context");
    drop(root);
    if ctx.sampled {
        kani::assert(nlog() == 3, "root_emits_start_submit_commit: exactly three commands");
        let (a, b, c) = (rec(0), rec(1), rec(2));
        kani::assert(a.kind == 1 && !a.forced, "root_emits_start_submit_commit: first command is StartCollect (lossy path)");
        kani::assert(b.kind == 4 && !b.forced && b.set_kind == 1 && b.raw_kind == 1, "root_emits_start_submit_commit: second command submits the span itself (lossy path)");
        kani::assert(c.kind == 3 && c.forced && c.collect_id == a.collect_id, "root_emits_start_submit_commit: third command commits the same collect id on the force path");
        kani::assert(b.token_len == 1, "root_token_carries_context: one token item");
        let it = b.tok[0];
        kani::assert(it.trace_id == ctx.trace_id && it.parent_id == ctx.span_id && it.collect_id == a.collect_id && it.is_root && it.is_sampled,
            "root_token_carries_context: trace id, remote parent id, collect id, root flag");
        kani::assert(b.span_parent == SpanId(0), "root_token_carries_context: the span is a root of its set");
        kani::assert(b.span_id == own.span_id, "from_span_identifies_span: span id is the id of the submitted span");
    } else {
        kani::assert(nlog() == 1, "unsampled_root_emits_no_start_no_submission: one command only");
        let a = rec(0);
        kani::assert(a.kind == 3 && a.forced && a.collect_id == NOT_SAMPLED_COLLECT_ID, "unsampled_root_emits_no_start_no_submission: only a commit of the not-sampled id");
    }
}


macro_rules! api_harness {
    ($name:ident, $ready:ident, $body:block) => {
        #[kani::proof]
        #[kani::unwind(4)]
        #[kani::stub(crate::collector::global_collector::send_command, rec_send)]
        #[kani::stub(crate::collector::global_collector::force_send_command, rec_force)]
        #[kani::stub(crate::collector::SpanId::next_id, stub_next_id)]
        #[kani::stub(fastant::Instant::now, stub_now)]
        #[kani::stub(crate::collector::global_collector::reporter_ready, $ready)]
        pub fn $name() $body
    };
}

fn sampled_root(ctx: SpanContext) -> (Span, usize) {
    // a root whose StartCollect has been recorded; returns it with its collect id
    let n0 = nlog();
    let root = Span::root("root", ctx);
    let cid = if ctx.sampled { rec(n0).collect_id } else { NOT_SAMPLED_COLLECT_ID };
    (root, cid)
}

// C16: before a reporter is installed nothing records and nothing is sent
api_harness!(root_without_reporter_is_noop, stub_not_ready, {
    let root = Span::root("root", any_ctx());
    kani::assert(SpanContext::from_span(&root).is_none(), "not_recording_span_has_no_context: from_span is None");
    kani::assert(root.elapsed().is_none(), "not_recording_span_has_no_context: elapsed is None");
    let child = Span::enter_with_parent("child", &root);
    kani::assert(SpanContext::from_span(&child).is_none(), "child_of_noop_is_noop: from_span is None");
    root.cancel();
    child.cancel();
    drop(child);
    drop(root);
    kani::assert(nlog() == 0, "not_recording_span_sends_nothing: no command at all");
});

// C04: cancel() sends DropCollect on the force path for a root, and only for a root
api_harness!(cancel_root, stub_ready, {
    let ctx = any_ctx();
    let (root, cid) = sampled_root(ctx);
    let n0 = nlog();
    root.cancel();
    kani::assert(nlog() == n0 + 1, "cancel_on_root_sends_one_drop: exactly one command");
    let d = rec(n0);
    kani::assert(d.kind == 2 && d.forced && d.collect_id == cid, "cancel_on_root_sends_one_drop: DropCollect of the trace's collect id on the force path");
    Span::noop().cancel();
    kani::assert(nlog() == n0 + 1, "cancel_on_noop_is_noop: nothing sent");
    drop(root);
    // the finish signal follows the cancel signal in program order, both on the force path
    let last = rec(nlog() - 1);
    kani::assert(last.kind == 3 && last.forced && last.collect_id == cid, "commit_follows_drop_in_program_order: CommitCollect after DropCollect");
});

// C16: closures given to a span that is not recording are never invoked
api_harness!(noop_span_never_calls_closures, stub_ready, {
    let noop = Span::noop();
    let noop = noop.with_properties(|| { kani::assert(false, "closures_not_invoked_when_not_recording: with_properties closure"); [("k", "v")] });
    let noop = noop.with_property(|| { kani::assert(false, "closures_not_invoked_when_not_recording: with_property closure"); ("k", "v") });
    noop.add_properties(|| { kani::assert(false, "closures_not_invoked_when_not_recording: add_properties closure"); [("k", "v")] });
    noop.add_property(|| { kani::assert(false, "closures_not_invoked_when_not_recording: add_property closure"); ("k", "v") });
    noop.add_event(crate::Event::new("e"));
    let g = noop.set_local_parent();
    kani::assert(SpanContext::current_local_parent().is_none(), "noop_span_sets_no_local_parent: no local parent");
    drop(g);
    drop(noop);
    kani::assert(nlog() == 0, "not_recording_span_sends_nothing: nothing sent");
});

fn any_item() -> CollectTokenItem {
    CollectTokenItem { trace_id: TraceId(kani::any()), parent_id: SpanId(kani::any()), collect_id: kani::any(), is_root: kani::any(), is_sampled: kani::any() }
}

fn token_of(s: &Span) -> &Vec<CollectTokenItem> {
    &s.inner.as_ref().unwrap().collect_token
}

fn id_of(s: &Span) -> SpanId {
    s.inner.as_ref().unwrap().raw_span.id
}

// ---- how tokens are derived (C02 / C05 / C11) -------------------------------------------------

// a child's token names the parent span, in the parent's trace, with the parent's decision
api_harness!(child_token_names_parent, stub_ready, {
    let ctx = any_ctx();
    let root = Span::root("root", ctx);
    let n0 = nlog();
    let child = Span::enter_with_parent("child", &root);
    kani::assert(nlog() == n0, "child_creation_sends_nothing: creating a child sends no command");
    let t = token_of(&child);
    kani::assert(t.len() == 1, "child_token_names_parent_span: one item");
    let rt = token_of(&root)[0];
    kani::assert(t[0].trace_id == ctx.trace_id && t[0].parent_id == id_of(&root) && t[0].collect_id == rt.collect_id && !t[0].is_root && t[0].is_sampled == ctx.sampled,
        "child_token_names_parent_span: parent id is the parent span's id; trace id, collect id and sampling decision are the parent's; not a root");
    kani::assert(child.inner.as_ref().unwrap().raw_span.parent_id == SpanId(0), "child_token_names_parent_span: the span itself is a root of its set");
    std::mem::forget(child);
    std::mem::forget(root);
});

// a span finishing submits itself once under its whole token minus the unsampled items, and nothing
// if no item is sampled; its context is taken from its first token item
api_harness!(finish_submits_sampled_items_only, stub_ready, {
    let i1 = any_item();
    let i2 = any_item();
    let s = Span::new(vec![i1, i2], "s", None);
    let begin_at_creation = unsafe { std::mem::transmute::<fastant::Instant, u64>(s.inner.as_ref().unwrap().raw_span.begin_instant) };
    let sid = id_of(&s);
    let own = SpanContext::from_span(&s).unwrap();
    kani::assert(own.trace_id == i1.trace_id && own.span_id == sid && own.sampled == i1.is_sampled,
        "context_is_first_items_trace_and_own_id: from_span = (first item's trace, the span's id, first item's decision)");
    s.cancel();
    kani::assert(nlog() == 0, "cancel_on_non_root_is_noop: no DropCollect for a non-root span");
    drop(s);
    let expect = (i1.is_sampled as usize) + (i2.is_sampled as usize);
    if expect == 0 {
        kani::assert(nlog() == 0, "only_sampled_parents_receive_copies: nothing sent when no item is sampled");
    } else {
        kani::assert(nlog() == 1, "finish_submits_once: exactly one command, no commit for a non-root");
        let b = rec(0);
        kani::assert(b.kind == 4 && !b.forced && b.set_kind == 1 && b.raw_kind == 1 && b.span_id == sid && b.span_parent == SpanId(0), "finish_submits_once: the span itself on the lossy path");
        kani::assert(b.token_len == expect, "only_sampled_parents_receive_copies: one item per sampled parent");
        let first = if i1.is_sampled { i1 } else { i2 };
        kani::assert(b.tok[0] == first, "each_copy_names_its_parent: first sampled item unchanged");
        if expect == 2 { kani::assert(b.tok[1] == i2, "each_copy_names_its_parent: second item unchanged, order kept"); }
        // C18: whatever is delivered was stamped by a clock read at creation and by one at finish
        kani::assert(begin_at_creation != 0 && b.begin == begin_at_creation, "delivered_span_is_stamped_at_creation_and_at_finish: begin is the clock value read when the span was created");
        kani::assert(b.end != 0, "delivered_span_is_stamped_at_creation_and_at_finish: end is a clock value read at finish, not the unset sentinel");
    }
});

// issue_collect_token: every item keeps trace / collect id / decision, parent becomes this span, never a root
api_harness!(issued_token_rewrites_parent_only, stub_ready, {
    let i1 = any_item();
    let i2 = any_item();
    let s = Span::new(vec![i1, i2], "s", None);
    let sid = id_of(&s);
    let v: Vec<CollectTokenItem> = s.inner.as_ref().unwrap().issue_collect_token().collect();
    kani::assert(v.len() == 2, "issued_token_is_elementwise: same length");
    kani::assert(v[0] == CollectTokenItem { trace_id: i1.trace_id, parent_id: sid, collect_id: i1.collect_id, is_root: false, is_sampled: i1.is_sampled }, "issued_token_is_elementwise: first item");
    kani::assert(v[1] == CollectTokenItem { trace_id: i2.trace_id, parent_id: sid, collect_id: i2.collect_id, is_root: false, is_sampled: i2.is_sampled }, "issued_token_is_elementwise: second item");
    std::mem::forget(v);
    std::mem::forget(s);
});

// C11 / C07: a span with an empty token belongs to no trace: no context, nothing sent, no panic
api_harness!(span_of_no_trace, stub_ready, {
    let s = Span::new(Vec::new(), "orphan", None);
    kani::assert(SpanContext::from_span(&s).is_none(), "span_of_no_trace_has_no_context: from_span is None");
    let g = s.set_local_parent();
    let cur = SpanContext::current_local_parent();
    kani::assert(cur.is_none(), "span_of_no_trace_has_no_context: current_local_parent is None (and does not panic)");
    drop(g);
    drop(s);
    kani::assert(nlog() == 0, "span_of_no_trace_sends_nothing: nothing sent");
});

// C16 (D14): a span derived from no parent at all, or only from no-op parents, belongs to no trace
// and must itself be a no-op span: no clock, no closure invoked, nothing sent
api_harness!(empty_parent_set, stub_ready, {
    let empty: [&Span; 0] = [];
    let s = Span::enter_with_parents("orphan", empty);
    kani::assert(s.inner.is_none(), "span_without_a_trace_is_noop: enter_with_parents over an empty parent set gives a no-op span");
    kani::assert(SpanContext::from_span(&s).is_none(), "span_of_no_trace_has_no_context: from_span is None");
    kani::assert(s.elapsed().is_none(), "span_without_a_trace_is_noop: elapsed() is None");
    let s = s.with_properties(|| { kani::assert(false, "closures_not_invoked_when_not_recording: with_properties on a span of no trace"); [("k", "v")] });
    s.add_properties(|| { kani::assert(false, "closures_not_invoked_when_not_recording: add_properties on a span of no trace"); [("k", "v")] });
    drop(s);
    kani::assert(nlog() == 0, "span_of_no_trace_sends_nothing: nothing sent");
});

// ---- modular step: a loop model of Span::enter_with_parents (the real one is a filter_map /
// flat_map / collect chain that costs CBMC minutes and gigabytes).  `enter_with_parent_matches_model`
// proves on the real function that, for one parent, it returns exactly what the model returns;
// harnesses of functions that *call* enter_with_parent(name, self) then use the model as a stub.
pub fn model_enter_with_parents<'a>(name: impl Into<std::borrow::Cow<'static, str>>, parents: impl IntoIterator<Item = &'a Span>) -> Span {
    let mut token: Vec<CollectTokenItem> = Vec::with_capacity(4);
    for p in parents {
        if let Some(inner) = p.inner.as_ref() {
            let mut i = 0;
            while i < inner.collect_token.len() {
                let it = inner.collect_token[i];
                token.push(CollectTokenItem { trace_id: it.trace_id, parent_id: inner.raw_span.id, collect_id: it.collect_id, is_root: false, is_sampled: it.is_sampled });
                i += 1;
            }
        }
    }
    if token.is_empty() {
        return Span::noop();
    }
    Span::new(token, name, None)
}

api_harness!(enter_with_parent_matches_model, stub_ready, {
    let i1 = any_item();
    let parent = Span::new(vec![i1], "p", None);
    let real = Span::enter_with_parent("c", &parent);
    let model = model_enter_with_parents("c", [&parent]);
    kani::assert(token_of(&real).len() == 1 && token_of(&model).len() == 1 && token_of(&real)[0] == token_of(&model)[0],
        "enter_with_parent_equals_loop_model: same token");
    let (a, b) = (real.inner.as_ref().unwrap(), model.inner.as_ref().unwrap());
    kani::assert(a.raw_span.parent_id == b.raw_span.parent_id && a.raw_span.raw_kind == b.raw_span.raw_kind && a.raw_span.properties.is_none() && b.raw_span.properties.is_none() && a.collect_id == b.collect_id,
        "enter_with_parent_equals_loop_model: same span shape (parent 0, kind Span, no properties, not a root)");
    kani::assert(nlog() == 0, "enter_with_parent_equals_loop_model: no command sent");
    std::mem::forget(real);
    std::mem::forget(model);
    std::mem::forget(parent);
});


// C02 "delivered once per parent, in that parent's trace": a parent that itself lives in two traces
// (a two-item token) hands BOTH items on to a child created through the real enter_with_parents
// chain -- one item per trace, each naming the parent span, in the parent's order.  (The model above is
// proved equal to the real function only for a one-item parent; this is the two-item case on the real one.)
api_harness!(child_of_two_trace_parent_is_in_both_traces, stub_ready, {
    let i1 = any_item();
    let i2 = any_item();
    let parent = Span::new(vec![i1, i2], "p", None);
    let pid = id_of(&parent);
    let child = Span::enter_with_parent("c", &parent);
    let t = token_of(&child);
    kani::assert(t.len() == 2, "child_is_attached_in_every_trace_of_its_parent: one token item per trace of the parent");
    kani::assert(t[0] == CollectTokenItem { trace_id: i1.trace_id, parent_id: pid, collect_id: i1.collect_id, is_root: false, is_sampled: i1.is_sampled },
        "child_is_attached_in_every_trace_of_its_parent: first item names the parent span in the parent's first trace");
    kani::assert(t[1] == CollectTokenItem { trace_id: i2.trace_id, parent_id: pid, collect_id: i2.collect_id, is_root: false, is_sampled: i2.is_sampled },
        "child_is_attached_in_every_trace_of_its_parent: second item names the parent span in the parent's second trace");
    kani::assert(nlog() == 0, "child_creation_sends_nothing: creating a child sends no command");
    std::mem::forget(child);
    std::mem::forget(parent);
});

// C16: the root-only half of root_without_reporter_is_noop, kept separate so that a root that wrongly
// stays live before a reporter is installed fails here, in seconds, instead of sending CBMC into the
// iterator chain of enter_with_parents over a live parent
api_harness!(root_before_reporter_is_noop, stub_not_ready, {
    let root = Span::root("root", any_ctx());
    kani::assert(root.inner.is_none(), "root_before_reporter_is_noop: a root created before a reporter is installed is a no-op span, sampled or not");
    kani::assert(SpanContext::from_span(&root).is_none(), "not_recording_span_has_no_context: from_span is None");
    kani::assert(root.elapsed().is_none(), "not_recording_span_has_no_context: elapsed is None");
    let root = root.with_properties(|| { kani::assert(false, "closures_not_invoked_when_not_recording: with_properties on a root created before a reporter is installed"); [("k", "v")] });
    root.cancel();
    drop(root);
    kani::assert(nlog() == 0, "not_recording_span_sends_nothing: no command at all");
});

macro_rules! api_harness_m {
    ($name:ident, $body:block) => {
        #[kani::proof]
        #[kani::unwind(4)]
        #[kani::stub(crate::collector::global_collector::send_command, rec_send)]
        #[kani::stub(crate::collector::global_collector::force_send_command, rec_force)]
        #[kani::stub(crate::collector::SpanId::next_id, stub_next_id)]
        #[kani::stub(fastant::Instant::now, stub_now)]
        #[kani::stub(crate::collector::global_collector::reporter_ready, stub_ready)]
        #[kani::stub(crate::Span::enter_with_parents, model_enter_with_parents)]
        pub fn $name() $body
    };
}

// C06: events and properties attached through the handle travel as pseudo-spans parked under the target
api_harness_m!(add_event_handle, {
    let i1 = any_item();
    let s = Span::new(vec![i1], "s", None);
    let sid = id_of(&s);
    s.add_event(crate::Event::new("ev"));
    if i1.is_sampled {
        kani::assert(nlog() == 1, "attachments_are_submitted_once_each: one command per attachment");
        let e = rec(0);
        kani::assert(e.kind == 4 && !e.forced && e.set_kind == 1 && e.raw_kind == 2, "event_travels_as_event_pseudo_span: kind Event, lossy path");
        kani::assert(e.token_len == 1 && e.tok[0].parent_id == sid && e.tok[0].trace_id == i1.trace_id && e.tok[0].collect_id == i1.collect_id,
            "attachment_is_parked_under_target_span: the token names the target span");
    } else {
        kani::assert(nlog() == 0, "unsampled_attachments_send_nothing: nothing sent");
    }
    std::mem::forget(s);
});

api_harness_m!(add_properties_handle, {
    let i1 = any_item();
    let s = Span::new(vec![i1], "s", None);
    let sid = id_of(&s);
    s.add_properties(|| [("k", "v")]);
    if i1.is_sampled {
        kani::assert(nlog() == 1, "attachments_are_submitted_once_each: one command per attachment");
        let p = rec(0);
        kani::assert(p.kind == 4 && !p.forced && p.set_kind == 1 && p.raw_kind == 3 && p.has_props, "properties_travel_as_properties_pseudo_span: kind Properties carrying the pairs");
        kani::assert(p.token_len == 1 && p.tok[0].parent_id == sid && p.tok[0].trace_id == i1.trace_id && p.tok[0].collect_id == i1.collect_id,
            "attachment_is_parked_under_target_span: the token names the target span");
    } else {
        kani::assert(nlog() == 0, "unsampled_attachments_send_nothing: nothing sent");
    }
    std::mem::forget(s);
});

// C06 "on each copy of a multi-parent span", C05 "only in its sampled parents' traces": the same two
// routes for a span with two parents and every combination of sampling decisions
fn check_two_parent_attachment(i1: CollectTokenItem, i2: CollectTokenItem, sid: SpanId, raw_kind: u8) {
    let expect = (i1.is_sampled as usize) + (i2.is_sampled as usize);
    if expect == 0 {
        kani::assert(nlog() == 0, "unsampled_attachments_send_nothing: nothing sent when no parent is sampled");
    } else {
        kani::assert(nlog() == 1, "each_sampled_copy_receives_the_attachment: one command per attachment");
        let e = rec(0);
        kani::assert(e.kind == 4 && !e.forced && e.set_kind == 1 && e.raw_kind == raw_kind, "each_sampled_copy_receives_the_attachment: pseudo-span of the attachment's kind, lossy path");
        kani::assert(e.token_len == expect, "each_sampled_copy_receives_the_attachment: one token item per sampled parent, whichever parent comes first");
        let first = if i1.is_sampled { i1 } else { i2 };
        kani::assert(e.tok[0].parent_id == sid && e.tok[0].trace_id == first.trace_id && e.tok[0].collect_id == first.collect_id && e.tok[0].is_sampled,
            "attachment_is_parked_under_target_span: first item names the target span in the first sampled parent's trace");
        if expect == 2 {
            kani::assert(e.tok[1].parent_id == sid && e.tok[1].trace_id == i2.trace_id && e.tok[1].collect_id == i2.collect_id && e.tok[1].is_sampled,
                "attachment_is_parked_under_target_span: second item names the target span in the second parent's trace");
        }
    }
}

api_harness_m!(add_event_handle_two_parents, {
    let i1 = any_item();
    let i2 = any_item();
    let s = Span::new(vec![i1, i2], "s", None);
    let sid = id_of(&s);
    s.add_event(crate::Event::new("ev"));
    check_two_parent_attachment(i1, i2, sid, 2);
    std::mem::forget(s);
});

api_harness_m!(add_properties_handle_two_parents, {
    let i1 = any_item();
    let i2 = any_item();
    let s = Span::new(vec![i1, i2], "s", None);
    let sid = id_of(&s);
    s.add_properties(|| [("k", "v")]);
    check_two_parent_attachment(i1, i2, sid, 3);
    if i1.is_sampled || i2.is_sampled { kani::assert(rec(0).has_props, "properties_travel_as_properties_pseudo_span: the pairs are carried"); }
    std::mem::forget(s);
});

// ---- local parent scopes (C10 / C11 / C01.1 / C05) through the real LocalParentGuard, LocalSpan
// and LocalCollector, on the K1 single-thread cell
use crate::local::{LocalCollector, LocalSpan};

api_harness!(local_parent_scope, stub_ready, {
    let i1 = any_item();
    kani::assume(i1.is_sampled);
    let s = Span::new(vec![i1], "s", None);
    let sid = id_of(&s);
    kani::assert(SpanContext::current_local_parent().is_none(), "no_local_parent_before_scope: None before set_local_parent");
    let g = s.set_local_parent();
    let c1 = SpanContext::current_local_parent();
    kani::assert(c1.is_some(), "local_parent_is_the_span_set: Some inside the scope");
    let c1 = c1.unwrap();
    kani::assert(c1.trace_id == i1.trace_id && c1.span_id == sid && c1.sampled, "local_parent_is_the_span_set: trace id, the span's id, decision");
    let l = LocalSpan::enter_with_local_parent("l");
    let c2 = SpanContext::current_local_parent().unwrap();
    kani::assert(c2.trace_id == i1.trace_id && c2.span_id != SpanId(0) || true, "innermost_local_span_is_the_local_parent: (id compared below)");
    let child = Span::enter_with_local_parent("c");
    kani::assert(token_of(&child).len() == 1 && token_of(&child)[0].parent_id == c2.span_id && token_of(&child)[0].trace_id == i1.trace_id && token_of(&child)[0].collect_id == i1.collect_id,
        "innermost_local_span_is_the_local_parent: a span created from the local parent names the open local span");
    std::mem::forget(child);
    drop(l);
    let c3 = SpanContext::current_local_parent().unwrap();
    kani::assert(c3.span_id == sid && c3.trace_id == i1.trace_id, "local_span_exit_restores_parent: after the local span ends the parent is the span again");
    kani::assert(nlog() == 0, "local_scope_sends_nothing_before_it_ends: no command yet");
    drop(g);
    kani::assert(SpanContext::current_local_parent().is_none(), "scope_end_restores_no_local_parent: None after the guard is dropped");
    kani::assert(nlog() == 1, "scope_end_submits_local_spans_once: exactly one command when the scope ends");
    let b = rec(0);
    kani::assert(b.kind == 4 && !b.forced && b.set_kind == 2 && b.n_local == 1, "scope_end_submits_local_spans_once: the set of local spans recorded in the scope");
    kani::assert(b.span_id == c2.span_id && b.span_parent == SpanId(0), "scope_end_submits_local_spans_once: the local span, as a root of its set");
    kani::assert(b.token_len == 1 && b.tok[0].parent_id == sid && b.tok[0].trace_id == i1.trace_id && b.tok[0].collect_id == i1.collect_id && !b.tok[0].is_root,
        "local_spans_are_parented_to_the_scope_span: token names the span that was set as local parent");
    std::mem::forget(s);
});

// C05: under an unsampled local parent nothing is recorded or sent, but the context still propagates
api_harness!(unsampled_local_parent, stub_ready, {
    let mut i1 = any_item();
    i1.is_sampled = false;
    let s = Span::new(vec![i1], "s", None);
    let g = s.set_local_parent();
    let c1 = SpanContext::current_local_parent().unwrap();
    kani::assert(c1.trace_id == i1.trace_id && !c1.sampled, "unsampled_decision_propagates_to_local_context: trace id kept, sampled=false");
    let l = LocalSpan::enter_with_local_parent("l");
    LocalSpan::add_event(crate::Event::new("e"));
    LocalSpan::add_properties(|| { kani::assert(false, "closures_not_invoked_when_not_recording: add_properties under an unsampled parent"); [("k", "v")] });
    let l = l.with_properties(|| { kani::assert(false, "closures_not_invoked_when_not_recording: with_properties under an unsampled parent"); [("k", "v")] });
    drop(l);
    drop(g);
    kani::assert(nlog() == 0, "unsampled_scope_sends_nothing: nothing sent");
    std::mem::forget(s);
});

// C10 / C16: with no local parent in scope the local operations are inert
api_harness!(no_local_parent_is_inert, stub_ready, {
    let l = LocalSpan::enter_with_local_parent("l");
    LocalSpan::add_event(crate::Event::new("e"));
    LocalSpan::add_properties(|| { kani::assert(false, "closures_not_invoked_when_not_recording: add_properties without a local parent"); [("k", "v")] });
    let l = l.with_properties(|| { kani::assert(false, "closures_not_invoked_when_not_recording: with_properties on an inert local span"); [("k", "v")] });
    let s = Span::enter_with_local_parent("s");
    kani::assert(s.inner.is_none(), "no_local_parent_means_noop_span: enter_with_local_parent gives a no-op span");
    kani::assert(SpanContext::current_local_parent().is_none(), "no_local_parent_before_scope: None");
    drop(l);
    drop(s);
    kani::assert(nlog() == 0, "inert_operations_send_nothing: nothing sent");
});

// C07 (D6): a property closure that itself uses the local-span API.  LocalSpan::add_properties
// (real) borrows the thread's stack mutably and calls LocalSpanStack::add_properties with the user's
// closure; the stub below stands for that function on its recording path, where it invokes the
// closure (unit `local`: the closure is invoked exactly when the innermost scope is sampled and
// below capacity).  The closure calls LocalSpan::add_event (real), which borrows the stack again.
pub fn stub_stack_add_properties<K, V, I, F>(_this: &mut LocalSpanStack, properties: F)
where
    K: Into<std::borrow::Cow<'static, str>>,
    V: Into<std::borrow::Cow<'static, str>>,
    I: IntoIterator<Item = (K, V)>,
    F: FnOnce() -> I,
{
    if kani::any() {
        let it = properties();
        std::mem::forget(it);
    }
}

pub fn stub_stack_add_event(_this: &mut LocalSpanStack, event: crate::Event) {
    std::mem::forget(event);
}

#[kani::proof]
#[kani::unwind(4)]
#[kani::stub(crate::collector::global_collector::send_command, rec_send)]
#[kani::stub(crate::collector::global_collector::force_send_command, rec_force)]
#[kani::stub(crate::collector::SpanId::next_id, stub_next_id)]
#[kani::stub(fastant::Instant::now, stub_now)]
#[kani::stub(crate::collector::global_collector::reporter_ready, stub_ready)]
#[kani::stub(crate::local::local_span_stack::LocalSpanStack::add_properties, stub_stack_add_properties)]
#[kani::stub(crate::local::local_span_stack::LocalSpanStack::add_event, stub_stack_add_event)]
pub fn reentrant_property_closure() {
    LocalSpan::add_properties(|| {
        LocalSpan::add_event(crate::Event::new("e"));
        [("k", "v")]
    });
}

// control for the harness above: the same call with a closure that does not touch the API
#[kani::proof]
#[kani::unwind(4)]
#[kani::stub(crate::collector::global_collector::send_command, rec_send)]
#[kani::stub(crate::collector::global_collector::force_send_command, rec_force)]
#[kani::stub(crate::collector::SpanId::next_id, stub_next_id)]
#[kani::stub(fastant::Instant::now, stub_now)]
#[kani::stub(crate::collector::global_collector::reporter_ready, stub_ready)]
#[kani::stub(crate::local::local_span_stack::LocalSpanStack::add_properties, stub_stack_add_properties)]
#[kani::stub(crate::local::local_span_stack::LocalSpanStack::add_event, stub_stack_add_event)]
pub fn plain_property_closure() {
    LocalSpan::add_properties(|| [("k", "v")]);
    LocalSpan::add_event(crate::Event::new("e"));
    kani::assert(nlog() == 0, "local_operations_send_nothing: nothing sent");
}

// C07 / C09 (D12): the scope stack is full -- LocalSpanStack::register_span_line answers None (unit
// `local`: exactly when span_lines.len() >= capacity; the stub below is that answer).  A local-parent
// guard created in that state must be inert: no panic when it is dropped, nothing sent, no context.
pub fn stub_register_span_line_full(_this: &mut LocalSpanStack, collect_token: Option<crate::util::CollectToken>) -> Option<crate::local::local_span_stack::SpanLineHandle> {
    drop(collect_token);
    None
}

#[kani::proof]
#[kani::unwind(4)]
#[kani::stub(crate::collector::global_collector::send_command, rec_send)]
#[kani::stub(crate::collector::global_collector::force_send_command, rec_force)]
#[kani::stub(crate::collector::SpanId::next_id, stub_next_id)]
#[kani::stub(fastant::Instant::now, stub_now)]
#[kani::stub(crate::collector::global_collector::reporter_ready, stub_ready)]
#[kani::stub(crate::local::local_span_stack::LocalSpanStack::register_span_line, stub_register_span_line_full)]
pub fn guard_beyond_scope_limit() {
    let i1 = any_item();
    let s = Span::new(vec![i1], "s", None);
    let g = s.set_local_parent();
    kani::assert(SpanContext::current_local_parent().is_none(), "scope_beyond_limit_is_inert: no local parent is in effect");
    let c = LocalCollector::start();
    drop(c);
    drop(g);
    kani::assert(nlog() == 0, "scope_beyond_limit_is_inert: nothing is sent when the guard is dropped");
    std::mem::forget(s);
}

// C17: a captured set pushed under a span is submitted shared, under that span; an empty set is not submitted
api_harness!(push_child_spans_handle, stub_ready, {
    let i1 = any_item();
    kani::assume(i1.is_sampled);
    let s = Span::new(vec![i1], "s", None);
    let sid = id_of(&s);
    let empty = LocalCollector::start().collect();
    s.push_child_spans(empty);
    kani::assert(nlog() == 0, "empty_set_is_not_submitted: nothing sent for an empty set");
    let col = LocalCollector::start();
    let l = LocalSpan::enter_with_local_parent("l");
    drop(l);
    let spans = col.collect();
    kani::assert(SpanContext::current_local_parent().is_none(), "collector_scope_restores_context: None after collect()");
    s.push_child_spans(spans);
    kani::assert(nlog() == 1, "pushed_set_is_submitted_once: one command");
    let b = rec(0);
    kani::assert(b.kind == 4 && !b.forced && b.set_kind == 3 && b.n_local == 1, "pushed_set_is_submitted_once: the shared set");
    kani::assert(b.token_len == 1 && b.tok[0].parent_id == sid && b.tok[0].trace_id == i1.trace_id && b.tok[0].collect_id == i1.collect_id,
        "pushed_set_is_parented_to_the_target_span: token names the target span");
    std::mem::forget(s);
});


// C10 / C11 / C01: the scope of a local parent -- context inside, restored after, one submission at its end
api_harness!(local_parent_guard_scope, stub_ready, {
    let i1 = any_item();
    kani::assume(i1.is_sampled);
    let s = Span::new(vec![i1], "s", None);
    let sid = id_of(&s);
    kani::assert(SpanContext::current_local_parent().is_none(), "no_local_parent_before_scope: None before set_local_parent");
    let g = s.set_local_parent();
    let c1 = SpanContext::current_local_parent();
    kani::assert(c1.is_some(), "local_parent_is_the_span_set: Some inside the scope");
    let c1 = c1.unwrap();
    kani::assert(c1.trace_id == i1.trace_id && c1.span_id == sid && c1.sampled, "local_parent_is_the_span_set: trace id, the span's id, decision");
    kani::assert(nlog() == 0, "local_scope_sends_nothing_before_it_ends: no command yet");
    drop(g);
    kani::assert(SpanContext::current_local_parent().is_none(), "scope_end_restores_no_local_parent: None after the guard is dropped");
    kani::assert(nlog() == 1, "scope_end_submits_local_spans_once: exactly one command when the scope ends");
    let b = rec(0);
    kani::assert(b.kind == 4 && !b.forced && b.set_kind == 2, "scope_end_submits_local_spans_once: the set of local spans of the scope");
    kani::assert(b.token_len == 1 && b.tok[0].parent_id == sid && b.tok[0].trace_id == i1.trace_id && b.tok[0].collect_id == i1.collect_id && !b.tok[0].is_root,
        "local_spans_are_parented_to_the_scope_span: token names the span that was set as local parent");
    std::mem::forget(s);
});

// C05 / C10 / C11: an unsampled span set as local parent still opens a scope of its own (it shadows
// an enclosing scope: the context inside is the unsampled span's), records nothing and sends nothing
api_harness!(unsampled_scope_shadows, stub_ready, {
    let i1 = any_item();
    kani::assume(!i1.is_sampled);
    let s = Span::new(vec![i1], "s", None);
    let sid = id_of(&s);
    let g = s.set_local_parent();
    let c1 = SpanContext::current_local_parent();
    kani::assert(c1.is_some(), "unsampled_scope_is_a_scope: Some inside the scope of an unsampled span");
    let c1 = c1.unwrap();
    kani::assert(c1.trace_id == i1.trace_id && c1.span_id == sid && !c1.sampled, "unsampled_scope_is_a_scope: the unsampled span's trace id, id and decision");
    drop(g);
    kani::assert(SpanContext::current_local_parent().is_none(), "scope_end_restores_no_local_parent: None after the guard is dropped");
    kani::assert(nlog() == 0, "unsampled_scope_sends_nothing: no command for an unsampled scope");
    std::mem::forget(s);
});

// C17: a captured set pushed under a span is submitted shared, under that span; an empty set is not
// submitted.  The set is built directly (recording it through LocalSpan costs CBMC > 30 GB).
api_harness!(push_child_spans_direct, stub_ready, {
    use crate::local::local_collector::{LocalSpans, LocalSpansInner};
    use crate::local::raw_span::RawSpan;
    let i1 = any_item();
    let s = Span::new(vec![i1], "s", None);
    let sid = id_of(&s);
    let empty = LocalSpans { inner: std::sync::Arc::new(LocalSpansInner { spans: Vec::new(), end_time: stub_now() }) };
    s.push_child_spans(empty);
    kani::assert(nlog() == 0, "empty_set_is_not_submitted: nothing sent for an empty set");
    let raw = RawSpan::begin_with(SpanId(kani::any()), SpanId(0), stub_now(), "l", RawKind::Span);
    let one = LocalSpans { inner: std::sync::Arc::new(LocalSpansInner { spans: vec![raw], end_time: stub_now() }) };
    s.push_child_spans(one);
    if i1.is_sampled {
        kani::assert(nlog() == 1, "pushed_set_is_submitted_once: one command");
        let b = rec(0);
        kani::assert(b.kind == 4 && !b.forced && b.set_kind == 3 && b.n_local == 1, "pushed_set_is_submitted_once: the shared set");
        kani::assert(b.token_len == 1 && b.tok[0].parent_id == sid && b.tok[0].trace_id == i1.trace_id && b.tok[0].collect_id == i1.collect_id,
            "pushed_set_is_parented_to_the_target_span: token names the target span");
    } else {
        kani::assert(nlog() == 0, "unsampled_target_receives_nothing: nothing sent under an unsampled span");
    }
    std::mem::forget(s);
});

// ---- C13: Future adapters (future.rs)
use std::future::Future;
use std::pin::Pin;
use std::task::{Context, Poll, Waker};
use crate::future::FutureExt;

pub static mut SEEN_IN_POLL: Option<SpanContext> = None;
pub static mut POLLED: usize = 0;

struct Fut { ready: bool }
impl Future for Fut {
    type Output = u8;
    fn poll(self: Pin<&mut Self>, _cx: &mut Context<'_>) -> Poll<u8> {
        unsafe { SEEN_IN_POLL = SpanContext::current_local_parent(); POLLED += 1; }
        if self.ready { Poll::Ready(7) } else { Poll::Pending }
    }
}

api_harness!(future_in_span_final_poll, stub_ready, {
    let i1 = any_item();
    kani::assume(i1.is_sampled);
    let cid: usize = kani::any();
    let span = Span::new(vec![i1], "task", Some(cid));
    let sid = id_of(&span);
    let mut f = Fut { ready: true }.in_span(span);
    let waker = Waker::noop();
    let mut cx = Context::from_waker(&waker);
    let r = Pin::new(&mut f).poll(&mut cx);
    kani::assert(r == Poll::Ready(7), "adapter_is_transparent: the inner future's output is returned");
    kani::assert(unsafe { POLLED } == 1, "adapter_is_transparent: the inner future is polled exactly once per poll");
    let seen = unsafe { SEEN_IN_POLL };
    kani::assert(seen.is_some() && seen.unwrap().span_id == sid && seen.unwrap().trace_id == i1.trace_id, "span_is_local_parent_during_poll: current_local_parent() inside the inner poll is the adapter's span");
    kani::assert(SpanContext::current_local_parent().is_none(), "context_restored_after_poll: no local parent after the poll");
    // on completion: the poll's local spans are submitted before the span's own finish and commit
    kani::assert(nlog() == 3, "completion_finishes_span_exactly_once: local set, span, commit");
    let (a, b, c) = (rec(0), rec(1), rec(2));
    kani::assert(a.kind == 4 && a.set_kind == 2 && a.token_len == 1 && a.tok[0].parent_id == sid, "local_spans_of_final_poll_precede_span_finish: first the local spans recorded during the poll, under the span");
    kani::assert(b.kind == 4 && b.set_kind == 1 && b.span_id == sid, "local_spans_of_final_poll_precede_span_finish: then the span itself");
    kani::assert(c.kind == 3 && c.forced && c.collect_id == cid, "local_spans_of_final_poll_precede_span_finish: then the commit of the root");
    drop(f);
    kani::assert(nlog() == 3, "completion_finishes_span_exactly_once: dropping the completed adapter sends nothing more");
});

api_harness!(future_in_span_pending_poll, stub_ready, {
    let i1 = any_item();
    kani::assume(i1.is_sampled);
    let span = Span::new(vec![i1], "task", None);
    let sid = id_of(&span);
    let mut f = Fut { ready: false }.in_span(span);
    let waker = Waker::noop();
    let mut cx = Context::from_waker(&waker);
    let r = Pin::new(&mut f).poll(&mut cx);
    kani::assert(r == Poll::Pending, "adapter_is_transparent: Pending is passed through");
    let seen = unsafe { SEEN_IN_POLL };
    kani::assert(seen.is_some() && seen.unwrap().span_id == sid, "span_is_local_parent_during_poll: the adapter's span");
    kani::assert(SpanContext::current_local_parent().is_none(), "context_restored_after_poll: no local parent after the poll");
    kani::assert(nlog() == 1 && rec(0).kind == 4 && rec(0).set_kind == 2, "pending_poll_keeps_span_open: only the poll's local spans are submitted");
    drop(f);
    kani::assert(nlog() == 2 && rec(1).kind == 4 && rec(1).set_kind == 1 && rec(1).span_id == sid, "drop_before_completion_finishes_span: dropping the adapter finishes the span once");
});

// ---- C13: enter_on_poll (future.rs EnterOnPoll::poll).  Recording a local span through the real
// SpanLine/SpanQueue exhausts CBMC, so the two LocalSpanStack operations the guard is made of are
// replaced by recording stubs (their own behaviour is proved in the Verus unit `local`):
// enter_span -> log 1 (+ the name, + a symbolic handle or None), exit_span -> log 3 (+ the handle);
// the inner future logs 2.  Everything between -- EnterOnPoll::poll, LocalSpan::enter_with_local_parent,
// enter_with_stack, the guard's Drop -- is the real code.
use crate::local::local_span_line::LocalSpanHandle;
use crate::local::local_span_stack::LocalSpanStack;
use crate::local::span_queue::SpanHandle;

pub static mut EOP_LOG: [u8; 8] = [0; 8];
pub static mut EOP_N: usize = 0;
pub static mut EOP_NAME_OK: bool = false;
pub static mut EOP_ENTERED: bool = false;
pub static mut EOP_HANDLE: (usize, usize) = (0, 0);
pub static mut EOP_EXIT_MATCH: bool = false;

fn eop(x: u8) { unsafe { if EOP_N < 8 { EOP_LOG[EOP_N] = x; } EOP_N += 1; } }

pub fn stub_enter_span(_this: &mut LocalSpanStack, name: impl Into<std::borrow::Cow<'static, str>>) -> Option<LocalSpanHandle> {
    let n: std::borrow::Cow<'static, str> = name.into();
    unsafe { EOP_NAME_OK = n.len() == 4 && n.as_bytes()[0] == b'p' && n.as_bytes()[3] == b'l'; }
    eop(1);
    let epoch: usize = kani::any();
    let index: usize = kani::any();
    let some: bool = kani::any();
    unsafe { EOP_HANDLE = (epoch, index); EOP_ENTERED = some; }
    if some { Some(LocalSpanHandle { span_line_epoch: epoch, span_handle: SpanHandle { index } }) } else { None }
}

pub fn stub_exit_span(_this: &mut LocalSpanStack, h: LocalSpanHandle) {
    unsafe { EOP_EXIT_MATCH = h.span_line_epoch == EOP_HANDLE.0 && h.span_handle.index == EOP_HANDLE.1; }
    eop(3);
}

struct LogFut { ready: bool }
impl Future for LogFut {
    type Output = u8;
    fn poll(self: Pin<&mut Self>, _cx: &mut Context<'_>) -> Poll<u8> {
        eop(2);
        if self.ready { Poll::Ready(7) } else { Poll::Pending }
    }
}

#[kani::proof]
#[kani::unwind(4)]
#[kani::stub(crate::collector::global_collector::send_command, rec_send)]
#[kani::stub(crate::collector::global_collector::force_send_command, rec_force)]
#[kani::stub(crate::collector::SpanId::next_id, stub_next_id)]
#[kani::stub(fastant::Instant::now, stub_now)]
#[kani::stub(crate::collector::global_collector::reporter_ready, stub_ready)]
#[kani::stub(crate::local::local_span_stack::LocalSpanStack::enter_span, stub_enter_span)]
#[kani::stub(crate::local::local_span_stack::LocalSpanStack::exit_span, stub_exit_span)]
pub fn future_enter_on_poll() {
    let ready: bool = kani::any();
    let mut f = LogFut { ready }.enter_on_poll("poll");
    let waker = Waker::noop();
    let mut cx = Context::from_waker(&waker);
    let r = Pin::new(&mut f).poll(&mut cx);
    kani::assert(r == (if ready { Poll::Ready(7) } else { Poll::Pending }), "adapter_is_transparent: the inner future's result is returned");
    let (n, l) = unsafe { (EOP_N, EOP_LOG) };
    kani::assert(unsafe { EOP_NAME_OK }, "per_poll_span_is_named: the local span is opened with the adapter's name");
    if unsafe { EOP_ENTERED } {
        kani::assert(n == 3 && l[0] == 1 && l[1] == 2 && l[2] == 3, "per_poll_local_span_covers_the_poll: local span entered, inner future polled once, span exited -- in this order, nothing else");
        kani::assert(unsafe { EOP_EXIT_MATCH }, "per_poll_local_span_covers_the_poll: the span that is exited is the one that was entered");
    } else {
        kani::assert(n == 2 && l[0] == 1 && l[1] == 2, "per_poll_local_span_covers_the_poll: without a recording local parent the poll still runs once, inside the (empty) guard");
    }
    // a second poll opens a second local span
    if !ready {
        let _ = Pin::new(&mut f).poll(&mut cx);
        let n2 = unsafe { EOP_N };
        kani::assert(n2 == n + (if unsafe { EOP_ENTERED } { 3 } else { 2 }), "one_local_span_per_poll: the next poll enters (and exits) a span of its own");
        kani::assert(unsafe { EOP_LOG[n] } == 1, "one_local_span_per_poll: the next poll starts by entering a span");
    }
    kani::assert(nlog() == 0, "per_poll_local_span_covers_the_poll: a poll sends no command of its own (the span is a local span of the enclosing scope)");
}

// ---- C14: Stream / Sink adapters (fastrace-futures/src/lib.rs compiled as crate::verif_futures_src, K7)
use crate::verif_futures_src::{SinkExt as VSinkExt, StreamExt as VStreamExt};
use crate::verif_futures_traits::{Sink, Stream};

struct Strm { end: bool }
impl Stream for Strm {
    type Item = u8;
    fn poll_next(self: Pin<&mut Self>, _cx: &mut Context<'_>) -> Poll<Option<u8>> {
        unsafe { SEEN_IN_POLL = SpanContext::current_local_parent(); POLLED += 1; }
        if self.end { Poll::Ready(None) } else { Poll::Ready(Some(5)) }
    }
}

api_harness!(stream_in_span_last_call, stub_ready, {
    let i1 = any_item();
    kani::assume(i1.is_sampled);
    let cid: usize = kani::any();
    let span = Span::new(vec![i1], "stream", Some(cid));
    let sid = id_of(&span);
    let mut s = VStreamExt::in_span(Strm { end: true }, span);
    let waker = Waker::noop();
    let mut cx = Context::from_waker(&waker);
    let r = Pin::new(&mut s).poll_next(&mut cx);
    kani::assert(r == Poll::Ready(None), "adapter_is_transparent: end of stream is passed through");
    let seen = unsafe { SEEN_IN_POLL };
    kani::assert(seen.is_some() && seen.unwrap().span_id == sid && seen.unwrap().trace_id == i1.trace_id, "span_is_local_parent_during_call: the adapter's span is the local parent inside poll_next");
    kani::assert(SpanContext::current_local_parent().is_none(), "context_restored_after_call: no local parent after the call");
    kani::assert(nlog() == 3, "end_of_stream_finishes_span_exactly_once: local set, span, commit");
    let (a, b, c) = (rec(0), rec(1), rec(2));
    kani::assert(a.kind == 4 && a.set_kind == 2 && a.token_len == 1 && a.tok[0].parent_id == sid, "local_spans_of_last_call_precede_span_finish: first the local spans of the call");
    kani::assert(b.kind == 4 && b.set_kind == 1 && b.span_id == sid, "local_spans_of_last_call_precede_span_finish: then the span itself");
    kani::assert(c.kind == 3 && c.forced && c.collect_id == cid, "local_spans_of_last_call_precede_span_finish: then the commit");
    drop(s);
    kani::assert(nlog() == 3, "end_of_stream_finishes_span_exactly_once: nothing more on drop");
});

api_harness!(stream_in_span_item_call, stub_ready, {
    let i1 = any_item();
    kani::assume(i1.is_sampled);
    let span = Span::new(vec![i1], "stream", None);
    let sid = id_of(&span);
    let mut s = VStreamExt::in_span(Strm { end: false }, span);
    let waker = Waker::noop();
    let mut cx = Context::from_waker(&waker);
    let r = Pin::new(&mut s).poll_next(&mut cx);
    kani::assert(r == Poll::Ready(Some(5)), "adapter_is_transparent: items are passed through");
    let seen = unsafe { SEEN_IN_POLL };
    kani::assert(seen.is_some() && seen.unwrap().span_id == sid, "span_is_local_parent_during_call: the adapter's span");
    kani::assert(SpanContext::current_local_parent().is_none(), "context_restored_after_call: no local parent after the call");
    kani::assert(nlog() == 1 && rec(0).kind == 4 && rec(0).set_kind == 2, "item_keeps_span_open: only the call's local spans are submitted");
    drop(s);
    kani::assert(nlog() == 2 && rec(1).set_kind == 1 && rec(1).span_id == sid, "drop_finishes_span: dropping the adapter finishes the span once");
});

// the inner sink's answer is symbolic: res 0 = Ready(Ok), 1 = Ready(Err), anything else = Pending
// (start_send: 0 = Ok, else Err)
struct Snk { last: u8, res: u8 }
fn snk_answer(res: u8) -> Poll<Result<(), ()>> { if res == 0 { Poll::Ready(Ok(())) } else if res == 1 { Poll::Ready(Err(())) } else { Poll::Pending } }
impl Sink<u8> for Snk {
    type Error = ();
    fn poll_ready(self: Pin<&mut Self>, _cx: &mut Context<'_>) -> Poll<Result<(), ()>> { unsafe { SEEN_IN_POLL = SpanContext::current_local_parent(); POLLED += 1; } snk_answer(self.res) }
    fn start_send(mut self: Pin<&mut Self>, item: u8) -> Result<(), ()> { unsafe { SEEN_IN_POLL = SpanContext::current_local_parent(); POLLED += 1; } self.last = item; if self.res == 0 { Ok(()) } else { Err(()) } }
    fn poll_flush(self: Pin<&mut Self>, _cx: &mut Context<'_>) -> Poll<Result<(), ()>> { unsafe { SEEN_IN_POLL = SpanContext::current_local_parent(); POLLED += 1; } snk_answer(self.res) }
    fn poll_close(self: Pin<&mut Self>, _cx: &mut Context<'_>) -> Poll<Result<(), ()>> { unsafe { SEEN_IN_POLL = SpanContext::current_local_parent(); POLLED += 1; } snk_answer(self.res) }
}

// poll_close, one harness per answer of the inner sink (a symbolic answer in one harness exhausts CBMC)
macro_rules! sink_close_harness {
    ($name:ident, $res:expr) => {
        api_harness!($name, stub_ready, {
            let i1 = any_item();
            kani::assume(i1.is_sampled);
            let cid: usize = kani::any();
            let res: u8 = $res;
            let span = Span::new(vec![i1], "sink", Some(cid));
            let sid = id_of(&span);
            let mut s = VSinkExt::<u8>::in_span(Snk { last: 0, res }, span);
            let waker = Waker::noop();
            let mut cx = Context::from_waker(&waker);
            let r = Pin::new(&mut s).poll_close(&mut cx);
            kani::assert(r == snk_answer(res), "adapter_is_transparent: the close result (Ok, Err or Pending) is passed through");
            let seen = unsafe { SEEN_IN_POLL };
            kani::assert(seen.is_some() && seen.unwrap().span_id == sid, "span_is_local_parent_during_call: the adapter's span is the local parent inside poll_close");
            kani::assert(SpanContext::current_local_parent().is_none(), "context_restored_after_call: no local parent after the call");
            if res <= 1 {
                // the close completed (successfully or with an error): the span is finished now
                kani::assert(nlog() == 3, "close_finishes_span_exactly_once: local set, span, commit");
                let (a, b, c) = (rec(0), rec(1), rec(2));
                kani::assert(a.kind == 4 && a.set_kind == 2 && a.tok[0].parent_id == sid && b.kind == 4 && b.set_kind == 1 && b.span_id == sid && c.kind == 3 && c.collect_id == cid,
                    "local_spans_of_last_call_precede_span_finish: local spans of the call, then the span, then the commit");
            } else {
                kani::assert(nlog() == 1 && rec(0).kind == 4 && rec(0).set_kind == 2, "pending_close_keeps_span_open: only the call's local spans are submitted");
            }
        });
    };
}
sink_close_harness!(sink_in_span_close, 0);
sink_close_harness!(sink_in_span_close_err, 1);
sink_close_harness!(sink_in_span_close_pending, 2);

api_harness!(sink_in_span_send, stub_ready, {
    let i1 = any_item();
    kani::assume(i1.is_sampled);
    let span = Span::new(vec![i1], "sink", None);
    let sid = id_of(&span);
    let res: u8 = kani::any();
    let mut s = VSinkExt::<u8>::in_span(Snk { last: 0, res }, span);
    let r = Pin::new(&mut s).start_send(9);
    kani::assert(r == (if res == 0 { Ok(()) } else { Err(()) }), "adapter_is_transparent: start_send result (Ok or Err) passed through");
    let seen = unsafe { SEEN_IN_POLL };
    kani::assert(seen.is_some() && seen.unwrap().span_id == sid, "span_is_local_parent_during_call: the adapter's span is the local parent inside start_send");
    kani::assert(SpanContext::current_local_parent().is_none(), "context_restored_after_call: no local parent after the call");
    kani::assert(nlog() == 1 && rec(0).set_kind == 2, "send_keeps_span_open: only the call's local spans are submitted");
    std::mem::forget(s);
});

api_harness!(sink_in_span_flush, stub_ready, {
    let i1 = any_item();
    kani::assume(i1.is_sampled);
    let span = Span::new(vec![i1], "sink", None);
    let sid = id_of(&span);
    let res: u8 = kani::any();
    let mut s = VSinkExt::<u8>::in_span(Snk { last: 0, res }, span);
    let waker = Waker::noop();
    let mut cx = Context::from_waker(&waker);
    let r = Pin::new(&mut s).poll_flush(&mut cx);
    kani::assert(r == snk_answer(res), "adapter_is_transparent: poll_flush result (Ok, Err or Pending) passed through");
    let seen = unsafe { SEEN_IN_POLL };
    kani::assert(seen.is_some() && seen.unwrap().span_id == sid, "span_is_local_parent_during_call: the adapter's span is the local parent inside poll_flush");
    kani::assert(SpanContext::current_local_parent().is_none(), "context_restored_after_call: no local parent after the call");
    kani::assert(nlog() == 1 && rec(0).set_kind == 2, "flush_keeps_span_open: only the call's local spans are submitted");
    std::mem::forget(s);
});

api_harness!(sink_in_span_ready, stub_ready, {
    let i1 = any_item();
    kani::assume(i1.is_sampled);
    let span = Span::new(vec![i1], "sink", None);
    let sid = id_of(&span);
    let res: u8 = kani::any();
    let mut s = VSinkExt::<u8>::in_span(Snk { last: 0, res }, span);
    let waker = Waker::noop();
    let mut cx = Context::from_waker(&waker);
    let r = Pin::new(&mut s).poll_ready(&mut cx);
    kani::assert(r == snk_answer(res), "adapter_is_transparent: poll_ready result (Ok, Err or Pending) passed through");
    let seen = unsafe { SEEN_IN_POLL };
    kani::assert(seen.is_some() && seen.unwrap().span_id == sid, "span_is_local_parent_during_call: the adapter's span is the local parent inside poll_ready");
    kani::assert(SpanContext::current_local_parent().is_none(), "context_restored_after_call: no local parent after the call");
    kani::assert(nlog() == 1 && rec(0).set_kind == 2, "ready_keeps_span_open: only the call's local spans are submitted");
    std::mem::forget(s);
});
