// Bounded Kani twin of the Verus unit `spsc`, on the real spsc.rs over the real rtrb ring
// (sequential: Kani has one thread).  It exists to give counterexamples and to stay meaningful
// when the Verus leg cannot follow a refactoring.  Bound: ring capacity 1, every sequence of 4
// operations out of {force_send, send, try_recv} (81 sequences, enumerated concretely), each
// followed by a drain in which a lossy send makes the sender replay what is parked.
use super::*;

const STEPS: usize = 4;

fn run(code: usize) {
    let (mut tx, mut rx) = bounded::<u8>(1);
    let mut accepted = [0u8; STEPS];
    let mut na = 0usize;
    let mut received = [0u8; STEPS];
    let mut nr = 0usize;
    let mut c = code;
    let mut step = 0usize;
    while step < STEPS {
        let op = c % 3;
        c /= 3;
        let tag = (step as u8) + 1;
        if op == 0 {
            tx.force_send(tag);
            accepted[na] = tag;
            na += 1;
        } else if op == 1 {
            if tx.send(tag).is_ok() {
                accepted[na] = tag;
                na += 1;
            }
        } else if let Ok(Some(v)) = rx.try_recv() {
            received[nr] = v;
            nr += 1;
        }
        step += 1;
    }
    let mut round = 0usize;
    while round < 2 * STEPS + 2 {
        if let Ok(Some(v)) = rx.try_recv() {
            if v != 0xff {
                kani::assert(nr < STEPS, "twin_nothing_duplicated: more values received than accepted");
                if nr < STEPS { received[nr] = v; nr += 1; }
            }
        } else {
            let _ = tx.send(0xff);
        }
        round += 1;
    }
    kani::assert(nr == na, "twin_nothing_dropped: every forced or accepted value is received after recovery");
    let mut i = 0usize;
    while i < STEPS {
        if i < nr && i < na {
            kani::assert(received[i] == accepted[i], "twin_order_kept: values are received in the order they were accepted");
        }
        i += 1;
    }
}

#[kani::proof]
#[kani::unwind(83)]
pub fn forced_and_accepted_values_arrive_once_in_order() {
    let mut code = 0usize;
    while code < 81 {
        run(code);
        code += 1;
    }
}
