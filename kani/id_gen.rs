// Kani harness for SpanId::next_id (C02: span ids are non-zero and distinct), child module of
// collector::id so that the private generator state is reachable.
use super::*;

#[kani::proof]
pub fn next_id_formula_and_distinct() {
    let prefix: u32 = kani::any();
    let suffix: u32 = kani::any();
    // any state the generator can be in (K6: the random prefix is kani::any())
    LOCAL_ID_GENERATOR.with(|g| g.set((prefix, suffix)));
    let a = SpanId::next_id();
    let b = SpanId::next_id();
    let step = |c: u32| { let n = c.wrapping_add(1); if n == 0 { 1 } else { n } };
    kani::assert(a.0 as u32 == step(suffix) && b.0 as u32 == step(step(suffix)), "next_id_is_prefix_and_counter: the low half is the per-thread counter, advanced by one step per id");
    kani::assert(a != b, "consecutive_ids_distinct: two consecutive ids of a thread differ");
    kani::assert((a.0 >> 32) as u32 == prefix && (b.0 >> 32) as u32 == prefix, "next_id_is_prefix_and_counter: the prefix is kept");
    kani::assert(a.0 != 0, "ids_are_non_zero: a generated span id is never 0");
}
