// Kani harness for the build WITHOUT the `enable` feature (C16): every API call is a no-op.
#![allow(static_mut_refs, dead_code, unused_imports)]
use crate::collector::command::CollectCommand;
use crate::collector::{SpanContext, SpanId, TraceId};
use crate::local::{LocalCollector, LocalSpan};
use crate::{Event, Span};

pub static mut NSENT: usize = 0;
pub fn rec_send(cmd: CollectCommand) { unsafe { NSENT += 1; } std::mem::forget(cmd); }
pub fn stub_ready() -> bool { true }

#[kani::proof]
#[kani::unwind(4)]
#[kani::stub(crate::collector::global_collector::send_command, rec_send)]
#[kani::stub(crate::collector::global_collector::force_send_command, rec_send)]
#[kani::stub(crate::collector::global_collector::reporter_ready, stub_ready)]
pub fn disabled_build_is_inert() {
    let ctx = SpanContext { trace_id: TraceId(kani::any()), span_id: SpanId(kani::any()), sampled: kani::any() };
    let root = Span::root("root", ctx);
    let root = root.with_properties(|| { kani::assert(false, "disabled_closures_never_invoked: Span::with_properties"); [("k", "v")] });
    let root = root.with_property(|| { kani::assert(false, "disabled_closures_never_invoked: Span::with_property"); ("k", "v") });
    root.add_properties(|| { kani::assert(false, "disabled_closures_never_invoked: Span::add_properties"); [("k", "v")] });
    root.add_property(|| { kani::assert(false, "disabled_closures_never_invoked: Span::add_property"); ("k", "v") });
    root.add_event(Event::new("e").with_properties(|| { kani::assert(false, "disabled_closures_never_invoked: Event::with_properties"); [("k", "v")] }));
    kani::assert(SpanContext::from_span(&root).is_none(), "disabled_no_context: from_span is None");
    kani::assert(root.elapsed().is_none(), "disabled_no_context: elapsed is None");
    let child = Span::enter_with_parent("c", &root);
    let multi = Span::enter_with_parents("m", [&root, &child]);
    let g = root.set_local_parent();
    kani::assert(SpanContext::current_local_parent().is_none(), "disabled_no_context: current_local_parent is None");
    let via_local = Span::enter_with_local_parent("v");
    let l = LocalSpan::enter_with_local_parent("l");
    let l = l.with_properties(|| { kani::assert(false, "disabled_closures_never_invoked: LocalSpan::with_properties"); [("k", "v")] });
    let l = l.with_property(|| { kani::assert(false, "disabled_closures_never_invoked: LocalSpan::with_property"); ("k", "v") });
    LocalSpan::add_properties(|| { kani::assert(false, "disabled_closures_never_invoked: LocalSpan::add_properties"); [("k", "v")] });
    LocalSpan::add_property(|| { kani::assert(false, "disabled_closures_never_invoked: LocalSpan::add_property"); ("k", "v") });
    LocalSpan::add_event(Event::new("e"));
    let col = LocalCollector::start();
    let spans = col.collect();
    kani::assert(spans.to_span_records(ctx).is_empty(), "disabled_no_records: to_span_records is empty");
    root.push_child_spans(spans);
    root.cancel();
    drop(l);
    drop(via_local);
    drop(g);
    drop(multi);
    drop(child);
    drop(root);
    crate::flush();
    kani::assert(unsafe { NSENT } == 0, "disabled_sends_nothing: no command is ever sent");
}
