// ---------------------------------------------------------------------------
// TRUSTED axioms linking the three uninterpreted std text functions
// ---------------------------------------------------------------------------
pub open spec fn pow16(w: nat) -> nat
    decreases w,
{
    if w == 0 { 1 } else { 16 * pow16((w - 1) as nat) }
}

// format!("{:0wx}", v) then from_str_radix(_, 16): the w-digit text of v parses back to v
pub axiom fn axiom_hexw_parses_back(v: nat, w: nat)
    requires v < pow16(w), w >= 1,
    ensures hexval(hexw(v, w)) == Some(v), hexw(v, w).len() == w;

// hex digits are not dashes: splitting the fixed layout at '-' gives back its four pieces
pub axiom fn axiom_split_fixed_layout(a: nat, b: nat, c: nat)
    ensures dash_fields("00-"@ + hexw(a, 32) + "-"@ + hexw(b, 16) + "-"@ + hexw(c, 2))
        == seq!["00"@, hexw(a, 32), hexw(b, 16), hexw(c, 2)];

pub proof fn lemma_pow16_values()
    ensures pow16(2) == 256, pow16(16) == 0x1_0000_0000_0000_0000, pow16(32) == 0x1_0000_0000_0000_0000_0000_0000_0000_0000,
{
    reveal_with_fuel(pow16, 33);
}

// ---------------------------------------------------------------------------
// C12: decoding the encoding of any context gives the context back, and the encoding has the
// fixed 55-character layout.  Stated over the two contracts proved above on the real functions.
// ---------------------------------------------------------------------------
pub proof fn thm_c12_round_trip(t: u128, s: u64, sampled: bool)
    ensures ({
        let flag = if sampled { 1u8 } else { 0u8 };
        let txt = traceparent_text(t, s, flag);
        let f = dash_fields(txt);
        // the encoding satisfies decode's "Some" condition ...
        &&& f.len() == 4 && f[0] == "00"@ && fits(f[1], u128::MAX as nat) && fits(f[2], u64::MAX as nat) && fits(f[3], u8::MAX as nat)
        // ... and decodes to the same ids and flag
        &&& hexval(f[1])->Some_0 == t as nat && hexval(f[2])->Some_0 == s as nat
        &&& (((hexval(f[3])->Some_0 as u8) & 1u8) == 1u8) == sampled
        // fixed length
        &&& txt.len() == 55
    }),
{
    let flag = if sampled { 1u8 } else { 0u8 };
    lemma_pow16_values();
    axiom_hexw_parses_back(t as nat, 32);
    axiom_hexw_parses_back(s as nat, 16);
    axiom_hexw_parses_back(flag as nat, 2);
    axiom_split_fixed_layout(t as nat, s as nat, flag as nat);
    assert((1u8 & 1u8) == 1u8) by (bit_vector);
    assert((0u8 & 1u8) == 0u8) by (bit_vector);
    reveal_strlit("00-");
    reveal_strlit("-");
    let txt = traceparent_text(t, s, flag);
    assert("00-"@.len() == 3);
    assert("-"@.len() == 1);
}

// C12: decode ignores every flag bit except the lowest (sampled)
pub proof fn thm_c12_only_low_flag_bit_matters(v: u8)
    ensures ((v & 1u8) == 1u8) == (v % 2 == 1),
{
    assert(((v & 1u8) == 1u8) == (v % 2 == 1)) by (bit_vector);
}

// C12: TraceId / SpanId round-trip through Display / FromStr as fixed-width lower-case hex: what
// Display writes (hexw(v, 32) resp. hexw(v, 16), contracts above) satisfies FromStr's Ok condition
// and parses back to v.
pub proof fn thm_c12_id_text_round_trip(t: u128, s: u64)
    ensures
        fits(hexw(t as nat, 32), u128::MAX as nat) && hexval(hexw(t as nat, 32))->Some_0 == t as nat && hexw(t as nat, 32).len() == 32,
        fits(hexw(s as nat, 16), u64::MAX as nat) && hexval(hexw(s as nat, 16))->Some_0 == s as nat && hexw(s as nat, 16).len() == 16,
{
    lemma_pow16_values();
    axiom_hexw_parses_back(t as nat, 32);
    axiom_hexw_parses_back(s as nat, 16);
}
