// ---------------------------------------------------------------------------
// TRUSTED: contracts for the std text functions id.rs is built from.
//   dash_fields(s): the maximal '-'-free segments of s, in order (what str::split('-') yields;
//                   a Split iterator is fused: after None it keeps returning None)
//   hexval(s):      Some(v) iff s is an optional '+' followed by one or more hex digits, v its value
//                   (what uN::from_str_radix(s, 16) accepts before the width check)
//   hexw(v, w):     the w-digit zero-padded lower-case hex text of v (what format!("{:0wx}") yields
//                   when v needs at most w digits)
// The axioms linking them are stated in lemmas.rs as `axiom fn`s and are listed as assumptions.
// ---------------------------------------------------------------------------
use std::borrow::Cow;

#[verifier::external_type_specification]
#[verifier::external_body]
pub struct ExParseIntError(std::num::ParseIntError);

pub uninterp spec fn dash_fields(s: Seq<char>) -> Seq<Seq<char>>;
pub uninterp spec fn hexval(s: Seq<char>) -> Option<nat>;
pub uninterp spec fn hexw(v: nat, w: nat) -> Seq<char>;

#[verifier::external_body]
pub struct DashSplit<'a> { _p: core::marker::PhantomData<&'a str> }

impl<'a> DashSplit<'a> {
    pub uninterp spec fn fields(&self) -> Seq<Seq<char>>;
    pub uninterp spec fn pos(&self) -> nat;

    #[verifier::external_body]
    pub fn next(&mut self) -> (r: Option<&'a str>)
        ensures
            final(self).fields() == old(self).fields(),
            old(self).pos() < old(self).fields().len() ==> r is Some && r->Some_0@ == old(self).fields()[old(self).pos() as int] && final(self).pos() == old(self).pos() + 1,
            old(self).pos() >= old(self).fields().len() ==> r is None && final(self).pos() == old(self).pos(),
    { unimplemented!() }
}

// R15: S.M('-') for M in {split, split_terminator}: the method name is captured from the code and
// resolved here; any other splitting method is an unsupported construct (undecided, exit 2).
pub struct DashIter;
impl DashIter {
    #[verifier::external_body]
    pub fn split<'a>(s: &'a str) -> (r: DashSplit<'a>)
        ensures r.fields() == dash_fields(s@), r.pos() == 0, dash_fields(s@).len() >= 1,
    { unimplemented!() }

    // std: "Equivalent to split, except that the trailing substring is skipped if empty."
    #[verifier::external_body]
    pub fn split_terminator<'a>(s: &'a str) -> (r: DashSplit<'a>)
        ensures
            r.pos() == 0, dash_fields(s@).len() >= 1,
            r.fields() == (if dash_fields(s@).last().len() == 0 { dash_fields(s@).drop_last() } else { dash_fields(s@) }),
    { unimplemented!() }
}

pub open spec fn fits(s: Seq<char>, max: nat) -> bool {
    hexval(s) is Some && hexval(s)->Some_0 <= max
}

pub assume_specification [u128::from_str_radix] (s: &str, radix: u32) -> (r: Result<u128, std::num::ParseIntError>)
    ensures radix == 16 ==> (r is Ok <==> fits(s@, u128::MAX as nat)) && (r is Ok ==> r->Ok_0 as nat == hexval(s@)->Some_0);

pub assume_specification [u64::from_str_radix] (s: &str, radix: u32) -> (r: Result<u64, std::num::ParseIntError>)
    ensures radix == 16 ==> (r is Ok <==> fits(s@, u64::MAX as nat)) && (r is Ok ==> r->Ok_0 as nat == hexval(s@)->Some_0);

pub assume_specification [u8::from_str_radix] (s: &str, radix: u32) -> (r: Result<u8, std::num::ParseIntError>)
    ensures radix == 16 ==> (r is Ok <==> fits(s@, u8::MAX as nat)) && (r is Ok ==> r->Ok_0 as nat == hexval(s@)->Some_0);

// R16: format!(FMT, a, b, c) with three lower-hex arguments.  The format string is part of the
// contract: C12 demands 00-<32 hex>-<16 hex>-<2 hex>.
pub open spec fn traceparent_text(t: u128, s: u64, f: u8) -> Seq<char> {
    "00-"@ + hexw(t as nat, 32) + "-"@ + hexw(s as nat, 16) + "-"@ + hexw(f as nat, 2)
}

#[verifier::external_body]
pub fn format3(fmt: &str, a: u128, b: u64, c: u8) -> (r: String)
    requires fmt@ == "00-{:032x}-{:016x}-{:02x}"@,
    ensures r@ == traceparent_text(a, b, c),
{ unimplemented!() }

// a str is determined by its characters (vstd only has the other direction)
pub axiom fn axiom_str_ext(a: &str, b: &str)
    ensures a@ == b@ ==> a == b;

// R16w: write!(f, FMT, v) inside Display::fmt: what was written to the formatter is ghost state
// of the formatter; the format literal is checked against the width the property demands.
pub uninterp spec fn written(f: std::fmt::Formatter<'_>) -> Seq<char>;

#[verifier::external_body]
pub fn write_hex128(f: &mut std::fmt::Formatter<'_>, fmt: &str, v: u128) -> (r: std::fmt::Result)
    requires fmt@ == "{:032x}"@,
    ensures r is Ok ==> written(*final(f)) == written(*old(f)) + hexw(v as nat, 32),
{ unimplemented!() }

#[verifier::external_body]
pub fn write_hex64(f: &mut std::fmt::Formatter<'_>, fmt: &str, v: u64) -> (r: std::fmt::Result)
    requires fmt@ == "{:016x}"@,
    ensures r is Ok ==> written(*final(f)) == written(*old(f)) + hexw(v as nat, 16),
{ unimplemented!() }
