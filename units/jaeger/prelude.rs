// ---------------------------------------------------------------------------
// TRUSTED: opaque stand-ins for what try_report calls.
//   SpanRecord / JaegerSpan / SocketAddr / UdpSocket / ErrBox: opaque values.
//   convert + serialize: "the bytes produced for a slice of records have a
//     length enc_len(records)" -- a deterministic function of the slice only.
//   udp_send: the only way to send a datagram (UdpSocket::send_to itself has
//     `requires false`, so a send that is not logged cannot verify).
// ---------------------------------------------------------------------------
#[verifier::external_body]
pub struct SpanRecord { _p: u8 }
#[verifier::external_body]
pub struct JaegerSpan { _p: u8 }
#[verifier::external_body]
#[derive(Clone, Copy)]
pub struct SocketAddr { _p: u8 }
#[verifier::external_body]
pub struct UdpSocket { _p: u8 }
#[verifier::external_body]
pub struct ErrBox { _p: u8 }

pub const MAX_DGRAM: usize = 8000;

// which records a vector of converted spans stands for
pub uninterp spec fn conv_src(js: Seq<JaegerSpan>) -> Seq<SpanRecord>;

impl JaegerReporter {
    // length of the datagram payload for this slice of records
    pub uninterp spec fn enc_len(&self, recs: Seq<SpanRecord>) -> nat;

    #[verifier::external_body]
    pub fn convert(&self, spans: &[SpanRecord]) -> (r: Vec<JaegerSpan>)
        ensures conv_src(r@) == spans@,
    { unimplemented!() }

    #[verifier::external_body]
    pub fn serialize(&self, spans: Vec<JaegerSpan>) -> (r: Result<Vec<u8>, ErrBox>)
        ensures r is Ok ==> r->Ok_0@.len() == self.enc_len(conv_src(spans@)),
    { unimplemented!() }
}

impl UdpSocket {
    // every datagram must go through udp_send (below) so that it is logged
    #[verifier::external_body]
    pub fn send_to(&self, buf: &Vec<u8>, addr: SocketAddr) -> (r: Result<usize, ErrBox>)
        requires false,
    { unimplemented!() }
}

#[verifier::external_body]
pub fn udp_send(sock: &UdpSocket, buf: &Vec<u8>, addr: SocketAddr) -> (r: Result<usize, ErrBox>)
{ unimplemented!() }

// ---------------------------------------------------------------------------
// Ghost log of one try_report call (definitions, nothing trusted)
// ---------------------------------------------------------------------------
pub struct Sent { pub lo: int, pub hi: int }

// C20, stated over the first n spans of the batch:
//  * every datagram is a non-empty contiguous run of spans and is smaller than 8000 bytes
//  * datagrams are in order and do not overlap
//  * every index < n is either in exactly one datagram, or was skipped, and a skipped span
//    does not fit into a datagram alone
pub open spec fn c20(rep: JaegerReporter, spans: Seq<SpanRecord>, log: Seq<Sent>, skipped: Set<int>, n: int) -> bool {
    &&& forall|k: int| 0 <= k < log.len() ==> 0 <= (#[trigger] log[k]).lo < log[k].hi <= n
            && rep.enc_len(spans.subrange(log[k].lo, log[k].hi)) < MAX_DGRAM
    &&& forall|k: int, l: int| 0 <= k < l < log.len() ==> (#[trigger] log[k]).hi <= (#[trigger] log[l]).lo
    &&& forall|i: int| skipped.contains(i) ==> 0 <= i < n && rep.enc_len(spans.subrange(i, i + 1)) >= MAX_DGRAM
            && forall|k: int| 0 <= k < log.len() ==> !((#[trigger] log[k]).lo <= i < log[k].hi)
    &&& forall|i: int| 0 <= i < n ==> skipped.contains(i) || covered(log, i)
}

pub open spec fn covered(log: Seq<Sent>, i: int) -> bool {
    exists|k: int| 0 <= k < log.len() && (#[trigger] log[k]).lo <= i < log[k].hi
}

// everything logged so far ends at or before `n` (so the next datagram starts after all others)
pub open spec fn log_ends_by(log: Seq<Sent>, n: int) -> bool {
    forall|k: int| 0 <= k < log.len() ==> (#[trigger] log[k]).hi <= n
}
