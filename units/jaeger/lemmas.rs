pub proof fn lemma_log_push(rep: JaegerReporter, spans: Seq<SpanRecord>, log: Seq<Sent>, skipped: Set<int>, n: int, m: int)
    requires
        c20(rep, spans, log, skipped, n), log_ends_by(log, n),
        0 <= n < m <= spans.len(),
        rep.enc_len(spans.subrange(n, m)) < MAX_DGRAM,
    ensures
        c20(rep, spans, log.push(Sent { lo: n, hi: m }), skipped, m),
        log_ends_by(log.push(Sent { lo: n, hi: m }), m),
{
    let log2 = log.push(Sent { lo: n, hi: m });
    assert forall|i: int| 0 <= i < m implies skipped.contains(i) || covered(log2, i) by {
        if i < n {
            if !skipped.contains(i) {
                assert(covered(log, i));
                let k = choose|k: int| 0 <= k < log.len() && (#[trigger] log[k]).lo <= i < log[k].hi;
                assert(log2[k] == log[k]);
                assert(log2[k].lo <= i < log2[k].hi);
            }
        } else {
            assert(log2[log.len() as int].lo <= i < log2[log.len() as int].hi);
        }
    }
    assert forall|k: int, l: int| 0 <= k < l < log2.len() implies (#[trigger] log2[k]).hi <= (#[trigger] log2[l]).lo by {
        if l == log.len() { assert(log2[k] == log[k]); } else { assert(log2[k] == log[k] && log2[l] == log[l]); }
    }
    assert forall|k: int| 0 <= k < log2.len() implies 0 <= (#[trigger] log2[k]).lo < log2[k].hi <= m
            && rep.enc_len(spans.subrange(log2[k].lo, log2[k].hi)) < MAX_DGRAM by {
        if k < log.len() { assert(log2[k] == log[k]); }
    }
    assert forall|i: int| skipped.contains(i) implies 0 <= i < m && rep.enc_len(spans.subrange(i, i + 1)) >= MAX_DGRAM
            && forall|k: int| 0 <= k < log2.len() ==> !((#[trigger] log2[k]).lo <= i < log2[k].hi) by {
        assert forall|k: int| 0 <= k < log2.len() implies !((#[trigger] log2[k]).lo <= i < log2[k].hi) by {
            if k < log.len() { assert(log2[k] == log[k]); }
        }
    }
}

pub proof fn lemma_log_skip(rep: JaegerReporter, spans: Seq<SpanRecord>, log: Seq<Sent>, skipped: Set<int>, n: int)
    requires
        c20(rep, spans, log, skipped, n), log_ends_by(log, n),
        0 <= n < spans.len(),
        rep.enc_len(spans.subrange(n, n + 1)) >= MAX_DGRAM,
    ensures
        c20(rep, spans, log, skipped.insert(n), n + 1),
        log_ends_by(log, n + 1),
{
    let sk2 = skipped.insert(n);
    assert forall|i: int| 0 <= i < n + 1 implies sk2.contains(i) || covered(log, i) by {}
}
