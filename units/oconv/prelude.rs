// ---------------------------------------------------------------------------
// TRUSTED (oconv): a mirror of the opentelemetry / opentelemetry_sdk 0.29 types that
// fastrace-opentelemetry fills in.  SpanData and SpanEvents are mirrored field by field (they are
// plain structs with public fields in the SDK); everything else is opaque with ghost accessors.
// ---------------------------------------------------------------------------
#[verifier::external_body] pub struct OtTraceId { _p: u8 }
#[verifier::external_body] pub struct OtSpanId { _p: u8 }
#[verifier::external_body] pub struct TraceFlags { _p: u8 }
#[verifier::external_body] pub struct TraceState { _p: u8 }
#[verifier::external_body] pub struct SpanKind { _p: u8 }
#[verifier::external_body] pub struct InstrumentationScope { _p: u8 }
#[verifier::external_body] pub struct KeyValue { _p: u8 }
#[verifier::external_body] pub struct Event { _p: u8 }
#[verifier::external_body] pub struct SpanLinks { _p: u8 }
#[verifier::external_body] pub struct Status { _p: u8 }
#[verifier::external_body] pub struct SystemTime { _p: u8 }
#[verifier::external_body] pub struct SpanContext { _p: u8 }
#[verifier::external_body] pub struct DynExporter { _p: u8 }

pub struct SpanEvents { pub events: Vec<Event>, pub dropped_count: u32 }

pub struct SpanData {
    pub span_context: SpanContext,
    pub parent_span_id: OtSpanId,
    pub span_kind: SpanKind,
    pub name: Cow<'static, str>,
    pub start_time: SystemTime,
    pub end_time: SystemTime,
    pub attributes: Vec<KeyValue>,
    pub dropped_attributes_count: u32,
    pub events: SpanEvents,
    pub links: SpanLinks,
    pub status: Status,
    pub instrumentation_scope: InstrumentationScope,
}

impl OtTraceId { pub uninterp spec fn value(&self) -> u128; }
impl OtSpanId { pub uninterp spec fn value(&self) -> u64; }
impl SystemTime { pub uninterp spec fn unix_ns(&self) -> nat; }
impl SpanLinks { pub uninterp spec fn is_empty(&self) -> bool; }
impl KeyValue { pub uninterp spec fn kv(&self) -> (Cow<'static, str>, Cow<'static, str>); }
impl Event {
    pub uninterp spec fn name(&self) -> Cow<'static, str>;
    pub uninterp spec fn time_ns(&self) -> nat;
    pub uninterp spec fn attrs(&self) -> Seq<(Cow<'static, str>, Cow<'static, str>)>;
    pub uninterp spec fn dropped(&self) -> u32;

    #[verifier::external_body]
    pub fn new(name: Cow<'static, str>, timestamp: SystemTime, attributes: Vec<KeyValue>, dropped_attributes_count: u32) -> (r: Event)
        ensures r.name() == name, r.time_ns() == timestamp.unix_ns(), r.attrs() == kvs_view(attributes@), r.dropped() == dropped_attributes_count,
    { unimplemented!() }
}
impl SpanContext {
    pub uninterp spec fn trace_id(&self) -> u128;
    pub uninterp spec fn span_id(&self) -> u64;
    pub uninterp spec fn is_remote(&self) -> bool;

    #[verifier::external_body]
    pub fn new(trace_id: OtTraceId, span_id: OtSpanId, trace_flags: TraceFlags, is_remote: bool, trace_state: TraceState) -> (r: SpanContext)
        ensures r.trace_id() == trace_id.value(), r.span_id() == span_id.value(), r.is_remote() == is_remote,
    { unimplemented!() }
}
impl KeyValue {
    #[verifier::external_body]
    pub fn new(k: Cow<'static, str>, v: Cow<'static, str>) -> (r: KeyValue)
        ensures r.kv() == (k, v),
    { unimplemented!() }
}
impl TraceFlags { #[verifier::external_body] pub fn default() -> (r: TraceFlags) { unimplemented!() } }
impl TraceState { #[verifier::external_body] pub fn default() -> (r: TraceState) { unimplemented!() } }
impl Status { #[verifier::external_body] pub fn default() -> (r: Status) { unimplemented!() } }
impl SpanLinks { #[verifier::external_body] pub fn default() -> (r: SpanLinks) ensures r.is_empty() { unimplemented!() } }
impl SpanEvents {
    pub fn default() -> (r: SpanEvents) ensures r.events@.len() == 0, r.dropped_count == 0 { SpanEvents { events: Vec::new(), dropped_count: 0 } }
}
impl SpanKind { #[verifier::external_body] pub fn clone(&self) -> (r: SpanKind) ensures r == *self { unimplemented!() } }
impl InstrumentationScope { #[verifier::external_body] pub fn clone(&self) -> (r: InstrumentationScope) ensures r == *self { unimplemented!() } }

// R4i: X.0.into() into the opentelemetry id types (From<u128> / From<u64>: same bits)
#[verifier::external_body]
pub fn ot_trace_id(v: u128) -> (r: OtTraceId) ensures r.value() == v { unimplemented!() }
#[verifier::external_body]
pub fn ot_span_id(v: u64) -> (r: OtSpanId) ensures r.value() == v { unimplemented!() }

// R4t: SystemTime::UNIX_EPOCH + Duration::from_nanos(N)
#[verifier::external_body]
pub fn unix_time(nanos: u64) -> (r: SystemTime) ensures r.unix_ns() == nanos { unimplemented!() }

// R4t: T + Duration::from_nanos(N) for a SystemTime T (std: exact; panics only beyond the range of
// SystemTime, which two u64 nanosecond counts cannot reach)
#[verifier::external_body]
pub fn time_plus_nanos(t: &SystemTime, nanos: u64) -> (r: SystemTime) ensures r.unix_ns() == t.unix_ns() + nanos { unimplemented!() }

// R4v: V.reserve(n) has no observable effect on the contents
#[verifier::external_body]
pub fn vec_reserve<T>(v: &mut Vec<T>, n: usize) ensures final(v)@ == old(v)@ { v.reserve(n) }

pub open spec fn kvs_view(s: Seq<KeyValue>) -> Seq<(Cow<'static, str>, Cow<'static, str>)> {
    s.map_values(|k: KeyValue| k.kv())
}

// ---------------------------------------------------------------------------
// Oracle from C19 (OpenTelemetry): ids, name, start time, end = start + duration, attributes one
// per property in order, events one per event in order with name, time and attributes.
// ---------------------------------------------------------------------------
pub open spec fn ev_ok(e: Event, r: EventRecord) -> bool {
    e.name() == r.name && e.time_ns() == r.timestamp_unix_ns && e.attrs() == r.properties@ && e.dropped() == 0
}

pub open spec fn evs_ok(q: SpanEvents, evs: Seq<EventRecord>) -> bool {
    q.dropped_count == 0 && q.events@.len() == evs.len() && forall|i: int| 0 <= i < evs.len() ==> ev_ok(#[trigger] q.events@[i], evs[i])
}

pub open spec fn sd_ok(d: SpanData, s: SpanRecord, rep: OpenTelemetryReporter) -> bool {
    &&& d.span_context.trace_id() == s.trace_id.0
    &&& d.span_context.span_id() == s.span_id.0
    &&& !d.span_context.is_remote()
    &&& d.parent_span_id.value() == s.parent_id.0
    &&& d.span_kind == rep.span_kind
    &&& d.instrumentation_scope == rep.instrumentation_scope
    &&& d.name == s.name
    &&& d.start_time.unix_ns() == s.begin_time_unix_ns
    &&& d.end_time.unix_ns() == s.begin_time_unix_ns + s.duration_ns
    &&& kvs_view(d.attributes@) == s.properties@
    &&& d.dropped_attributes_count == 0
    &&& evs_ok(d.events, s.events@)
    &&& d.links.is_empty()
}
