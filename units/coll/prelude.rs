// ---------------------------------------------------------------------------
// TRUSTED (collector unit): clock conversion and std-collection wrappers.
// ---------------------------------------------------------------------------
#[verifier::external_body]
pub struct Anchor { _p: u8 }

// unix_ns(i, a): the unix-nanosecond reading of instant i under anchor a (fastant; f64 inside).
pub uninterp spec fn unix_ns(i: Instant, a: Anchor) -> u64;

impl Anchor {
    #[verifier::external_body]
    pub fn new() -> (r: Anchor) { unimplemented!() }
}

impl Instant {
    #[verifier::external_body]
    pub fn as_unix_nanos(&self, anchor: &Anchor) -> (r: u64)
        ensures r == unix_ns(*self, *anchor),
    { unimplemented!() }
}


// R4: P.as_ref().map(|p| p.to_vec()).unwrap_or_default()
#[verifier::external_body]
pub fn props_to_vec(p: &Option<Vec<(Cow<'static, str>, Cow<'static, str>)>>) -> (r: Vec<(Cow<'static, str>, Cow<'static, str>)>)
    ensures r@ == opt_props(*p),
{ p.as_ref().map(|p| p.to_vec()).unwrap_or_default() }

// danglings: HashMap<SpanId, Vec<DanglingItem>>; its deep view
pub open spec fn dview(m: HashMap<SpanId, Vec<DanglingItem>>) -> Map<SpanId, Seq<DanglingItem>> {
    Map::new(m@.dom(), |k: SpanId| m@[k]@)
}

pub open spec fn d_get(d: Map<SpanId, Seq<DanglingItem>>, k: SpanId) -> Seq<DanglingItem> {
    if d.contains_key(k) { d[k] } else { Seq::empty() }
}

// R4: M.entry(K).or_default().push(I)
#[verifier::external_body]
pub fn hm_push(m: &mut HashMap<SpanId, Vec<DanglingItem>>, k: SpanId, item: DanglingItem)
    ensures dmap_of(*final(m)) == dm_park(dmap_of(*old(m)), k, dang_view(item)),
{ m.entry(k).or_default().push(item) }

// R4: M.entry(K).or_default().extend(V) for V: Vec<DanglingItem>
#[verifier::external_body]
pub fn hm_extend(m: &mut HashMap<SpanId, Vec<DanglingItem>>, k: SpanId, items: Vec<DanglingItem>)
    ensures dmap_of(*final(m)) == dm_extend(dmap_of(*old(m)), k, dangs_view(items@)),
{ m.entry(k).or_default().extend(items) }

// R22: `for (K, V) in M` consuming a HashMap visits every key exactly once in an order nothing is
// known about: the loop runs over a snapshot of the keys and takes each entry out with M.remove(k)
#[verifier::external_body]
pub fn hm_keys_d(m: &HashMap<SpanId, Vec<DanglingItem>>) -> (r: Vec<SpanId>)
    ensures r@.no_duplicates(), r@.to_set() == m@.dom(),
{ m.keys().copied().collect() }

// ---------------------------------------------------------------------------
// Specification functions (definitions; the oracle).  Written from the
// property statements:
//  C02  a record carries the trace id of the parent item it is delivered under; a span whose
//       recorded parent is 0 (a root of the submitted set) gets the item's parent id, any other
//       keeps its recorded parent
//  C18  begin = ns(begin_instant), duration = ns(end) (-) ns(begin) saturating; a local span still
//       open when its set was collected ends at the set's collection time
//  C06  events / properties are parked under their (amended) parent id, in arrival order
//  C17  nothing else of the raw span is changed or dropped
// ---------------------------------------------------------------------------
pub open spec fn sat_sub(a: u64, b: u64) -> u64 {
    if a >= b { (a - b) as u64 } else { 0u64 }
}

pub open spec fn amended_parent(span: RawSpan, parent_id: SpanId) -> SpanId {
    if span.parent_id == SpanId(0) { parent_id } else { span.parent_id }
}

pub open spec fn record_of(span: RawSpan, end: Instant, trace_id: TraceId, parent_id: SpanId, anchor: Anchor) -> SpanRecord {
    SpanRecord {
        trace_id,
        span_id: span.id,
        parent_id,
        begin_time_unix_ns: unix_ns(span.begin_instant, anchor),
        duration_ns: sat_sub(unix_ns(end, anchor), unix_ns(span.begin_instant, anchor)),
        name: span.name,
        properties: seq_to_vec_spec(opt_props(span.properties)),
        events: seq_to_vec_spec(Seq::<EventRecord>::empty()),
    }
}

// Vec values in records are compared through their views: rec_eq
pub uninterp spec fn seq_to_vec_spec<T>(s: Seq<T>) -> Vec<T>;

pub open spec fn ev_view(e: EventRecord) -> (Cow<'static, str>, u64, Seq<(Cow<'static, str>, Cow<'static, str>)>) {
    (e.name, e.timestamp_unix_ns, e.properties@)
}

pub open spec fn evs_view(v: Seq<EventRecord>) -> Seq<(Cow<'static, str>, u64, Seq<(Cow<'static, str>, Cow<'static, str>)>)> {
    v.map_values(|e: EventRecord| ev_view(e))
}

// the abstract value of a record: every field, vectors by content
pub struct RecV {
    pub trace_id: TraceId,
    pub span_id: SpanId,
    pub parent_id: SpanId,
    pub begin: u64,
    pub duration: u64,
    pub name: Cow<'static, str>,
    pub properties: Seq<(Cow<'static, str>, Cow<'static, str>)>,
    pub events: Seq<(Cow<'static, str>, u64, Seq<(Cow<'static, str>, Cow<'static, str>)>)>,
}

pub open spec fn rec_view(r: SpanRecord) -> RecV {
    RecV {
        trace_id: r.trace_id, span_id: r.span_id, parent_id: r.parent_id,
        begin: r.begin_time_unix_ns, duration: r.duration_ns, name: r.name,
        properties: r.properties@, events: evs_view(r.events@),
    }
}

pub open spec fn recs_view(v: Seq<SpanRecord>) -> Seq<RecV> {
    v.map_values(|r: SpanRecord| rec_view(r))
}

// what a raw span of kind Span becomes
pub open spec fn recv_of(span: RawSpan, end: Instant, trace_id: TraceId, parent_id: SpanId, anchor: Anchor) -> RecV {
    RecV {
        trace_id,
        span_id: span.id,
        parent_id,
        begin: unix_ns(span.begin_instant, anchor),
        duration: sat_sub(unix_ns(end, anchor), unix_ns(span.begin_instant, anchor)),
        name: span.name,
        properties: opt_props(span.properties),
        events: evs_view(Seq::<EventRecord>::empty()),
    }
}

// dangling items by content
pub enum DangV {
    Event(Cow<'static, str>, u64, Seq<(Cow<'static, str>, Cow<'static, str>)>),
    Properties(Seq<(Cow<'static, str>, Cow<'static, str>)>),
}

pub open spec fn dang_view(d: DanglingItem) -> DangV {
    match d {
        DanglingItem::Event(e) => DangV::Event(e.name, e.timestamp_unix_ns, e.properties@),
        DanglingItem::Properties(p) => DangV::Properties(p@),
    }
}

pub open spec fn dang_of(span: RawSpan, anchor: Anchor) -> DangV {
    if span.raw_kind == RawKind::Event {
        DangV::Event(span.name, unix_ns(span.begin_instant, anchor), opt_props(span.properties))
    } else {
        DangV::Properties(opt_props(span.properties))
    }
}

pub open spec fn dangs_view(s: Seq<DanglingItem>) -> Seq<DangV> {
    s.map_values(|d: DanglingItem| dang_view(d))
}

// abstract danglings map: span id -> items by content, in arrival order
pub type DMap = Map<SpanId, Seq<DangV>>;

pub open spec fn dmap_of(m: HashMap<SpanId, Vec<DanglingItem>>) -> DMap {
    Map::new(m@.dom(), |k: SpanId| dangs_view(m@[k]@))
}

pub open spec fn dm_get(d: DMap, k: SpanId) -> Seq<DangV> {
    if d.contains_key(k) { d[k] } else { Seq::empty() }
}

pub open spec fn dm_park(d: DMap, k: SpanId, item: DangV) -> DMap {
    d.insert(k, dm_get(d, k).push(item))
}

pub open spec fn dm_extend(d: DMap, k: SpanId, items: Seq<DangV>) -> DMap {
    d.insert(k, dm_get(d, k) + items)
}

// what is parked for spans outside a local set (l) joins what is already parked (d), per key, behind it
pub open spec fn dm_merge(d: DMap, l: DMap) -> DMap {
    Map::new(d.dom() + l.dom(), |k: SpanId| dm_get(d, k) + dm_get(l, k))
}

// the same, one key of l at a time in the order ks (the order a HashMap happens to iterate in)
pub open spec fn merge_seq(d: DMap, l: DMap, ks: Seq<SpanId>) -> DMap
    decreases ks.len(),
{
    if ks.len() == 0 { d } else { dm_extend(merge_seq(d, l, ks.drop_last()), ks.last(), l[ks.last()]) }
}

pub proof fn lemma_merge_seq(d: DMap, l: DMap, ks: Seq<SpanId>)
    requires ks.no_duplicates(), forall|i: int| 0 <= i < ks.len() ==> l.contains_key(#[trigger] ks[i]),
    ensures
        merge_seq(d, l, ks).dom() =~= d.dom() + ks.to_set(),
        forall|k: SpanId| #[trigger] merge_seq(d, l, ks).contains_key(k) ==>
            merge_seq(d, l, ks)[k] == dm_get(d, k) + (if ks.contains(k) { l[k] } else { Seq::<DangV>::empty() }),
    decreases ks.len(),
{
    if ks.len() == 0 {
        assert(ks.to_set() =~= Set::<SpanId>::empty());
        assert forall|k: SpanId| #[trigger] d.contains_key(k) implies d[k] == dm_get(d, k) + Seq::<DangV>::empty() by {
            assert(d[k] + Seq::<DangV>::empty() =~= d[k]);
        }
    } else {
        let kl = ks.drop_last();
        let x = ks.last();
        assert(kl.no_duplicates());
        assert forall|i: int| 0 <= i < kl.len() implies l.contains_key(#[trigger] kl[i]) by { assert(kl[i] == ks[i]); }
        lemma_merge_seq(d, l, kl);
        let m0 = merge_seq(d, l, kl);
        assert(!kl.contains(x)) by {
            if kl.contains(x) {
                let i = choose|i: int| 0 <= i < kl.len() && kl[i] == x;
                assert(ks[i] == x && ks[ks.len() - 1] == x);
            }
        }
        assert forall|k: SpanId| ks.contains(k) <==> (kl.contains(k) || k == x) by {
            if ks.contains(k) {
                let i = choose|i: int| 0 <= i < ks.len() && ks[i] == k;
                if i < ks.len() - 1 { assert(kl[i] == k); }
            }
            if kl.contains(k) {
                let i = choose|i: int| 0 <= i < kl.len() && kl[i] == k;
                assert(ks[i] == k);
            }
            if k == x { assert(ks[ks.len() - 1] == k); }
        }
        assert(ks.to_set() =~= kl.to_set().insert(x));
        assert forall|k: SpanId| #[trigger] merge_seq(d, l, ks).contains_key(k) implies
            merge_seq(d, l, ks)[k] == dm_get(d, k) + (if ks.contains(k) { l[k] } else { Seq::<DangV>::empty() }) by {
            if k == x {
                if m0.contains_key(x) {
                    assert(m0[x] == dm_get(d, x) + Seq::<DangV>::empty());
                    assert((dm_get(d, x) + Seq::<DangV>::empty()) + l[x] =~= dm_get(d, x) + l[x]);
                } else {
                    assert(!d.contains_key(x));
                    assert(Seq::<DangV>::empty() + l[x] =~= l[x]);
                    assert(dm_get(d, x) + l[x] =~= l[x]);
                }
            }
        }
    }
}

pub proof fn lemma_push_set(s: Seq<SpanId>)
    requires s.len() > 0,
    ensures s.to_set() =~= s.drop_last().to_set().insert(s.last()),
{
    let kl = s.drop_last();
    let x = s.last();
    assert forall|k: SpanId| s.contains(k) <==> (kl.contains(k) || k == x) by {
        if s.contains(k) {
            let i = choose|i: int| 0 <= i < s.len() && s[i] == k;
            if i < s.len() - 1 { assert(kl[i] == k); }
        }
        if kl.contains(k) {
            let i = choose|i: int| 0 <= i < kl.len() && kl[i] == k;
            assert(s[i] == k);
        }
        if k == x { assert(s[s.len() - 1] == k); }
    }
}

pub proof fn lemma_take_set(ks: Seq<SpanId>, i: int)
    requires 0 <= i < ks.len(), ks.no_duplicates(),
    ensures
        ks.take(i + 1).to_set() =~= ks.take(i).to_set().insert(ks[i]),
        !ks.take(i).to_set().contains(ks[i]),
{
    let t = ks.take(i + 1);
    assert(t.drop_last() =~= ks.take(i));
    assert(t.last() == ks[i]);
    lemma_push_set(t);
    if ks.take(i).contains(ks[i]) {
        let j = choose|j: int| 0 <= j < ks.take(i).len() && ks.take(i)[j] == ks[i];
        assert(ks[j] == ks[i]);
    }
}

pub proof fn lemma_merge_all(d: DMap, l: DMap, ks: Seq<SpanId>)
    requires ks.no_duplicates(), ks.to_set() =~= l.dom(),
    ensures merge_seq(d, l, ks) =~= dm_merge(d, l),
{
    assert forall|i: int| 0 <= i < ks.len() implies l.contains_key(#[trigger] ks[i]) by {
        assert(ks.to_set().contains(ks[i]));
    }
    lemma_merge_seq(d, l, ks);
    assert forall|k: SpanId| #[trigger] dm_merge(d, l).contains_key(k) implies merge_seq(d, l, ks)[k] == dm_merge(d, l)[k] by {
        if l.contains_key(k) { assert(ks.to_set().contains(k)); } else {
            assert(!ks.to_set().contains(k));
            assert(dm_get(d, k) + Seq::<DangV>::empty() =~= dm_get(d, k) + dm_get(l, k));
        }
    }
}

// ---- one thread-safe span (SpanSet::Span) delivered under (trace_id, parent_id)
pub open spec fn amend_span_recs(span: RawSpan, trace_id: TraceId, parent_id: SpanId, anchor: Anchor) -> Seq<RecV> {
    if span.raw_kind == RawKind::Span { seq![recv_of(span, span.end_instant, trace_id, parent_id, anchor)] } else { Seq::empty() }
}

pub open spec fn amend_span_dm(span: RawSpan, parent_id: SpanId, d: DMap, anchor: Anchor) -> DMap {
    if span.raw_kind == RawKind::Span { d } else { dm_park(d, parent_id, dang_of(span, anchor)) }
}

// ---- a set of local spans (LocalSpansInner) delivered under (trace_id, parent_id)
pub open spec fn local_end(s: RawSpan, end_time: Instant) -> Instant {
    if s.end_instant.ticks() == 0 { end_time } else { s.end_instant }
}

pub open spec fn amend_local_recs(spans: Seq<RawSpan>, end_time: Instant, trace_id: TraceId, parent_id: SpanId, anchor: Anchor) -> Seq<RecV>
    decreases spans.len(),
{
    if spans.len() == 0 {
        Seq::empty()
    } else {
        let s = spans.last();
        let rest = amend_local_recs(spans.drop_last(), end_time, trace_id, parent_id, anchor);
        if s.raw_kind == RawKind::Span {
            rest.push(recv_of(s, local_end(s, end_time), trace_id, amended_parent(s, parent_id), anchor))
        } else {
            rest
        }
    }
}

pub open spec fn amend_local_dm(spans: Seq<RawSpan>, parent_id: SpanId, d: DMap, anchor: Anchor) -> DMap
    decreases spans.len(),
{
    if spans.len() == 0 {
        d
    } else {
        let s = spans.last();
        let rest = amend_local_dm(spans.drop_last(), parent_id, d, anchor);
        if s.raw_kind == RawKind::Span { rest } else { dm_park(rest, amended_parent(s, parent_id), dang_of(s, anchor)) }
    }
}

pub mod view_lemmas {
    use super::*;
    pub broadcast proof fn lemma_recs_view_push(s: Seq<SpanRecord>, r: SpanRecord)
        ensures #[trigger] recs_view(s.push(r)) =~= recs_view(s).push(rec_view(r)),
    {}

    pub proof fn lemma_recs_view_add(a: Seq<SpanRecord>, b: Seq<SpanRecord>)
        ensures recs_view(a + b) =~= recs_view(a) + recs_view(b),
    {}

    pub proof fn lemma_recs_view_take(a: Seq<SpanRecord>, n: int)
        requires 0 <= n <= a.len(),
        ensures recs_view(a.take(n)) =~= recs_view(a).take(n), recs_view(a.skip(n)) =~= recs_view(a).skip(n),
    {}

    pub broadcast proof fn lemma_add_push<A>(x: Seq<A>, y: Seq<A>, z: A)
        ensures #[trigger] (x + y.push(z)) =~= (x + y).push(z),
    {}
}

// R4: V.extend(W) for W: Vec<T>
#[verifier::external_body]
pub fn vec_extend<T>(v: &mut Vec<T>, w: Vec<T>)
    ensures final(v)@ == old(v)@ + w@,
{ v.extend(w) }

// ---- mount_danglings: walk the new records left to right; a record whose span id has parked
// items takes all of them, in order, and the key is consumed (C06: on that span and no other)
pub open spec fn attach_one(r: RecV, d: DangV) -> RecV {
    match d {
        DangV::Event(n, t, p) => RecV { events: r.events.push((n, t, p)), ..r },
        DangV::Properties(p) => RecV { properties: r.properties + p, ..r },
    }
}

pub open spec fn attach(r: RecV, items: Seq<DangV>) -> RecV
    decreases items.len(),
{
    if items.len() == 0 { r } else { attach_one(attach(r, items.drop_last()), items.last()) }
}

pub open spec fn mount_step_rec(r: RecV, d: DMap) -> RecV {
    if d.contains_key(r.span_id) { attach(r, d[r.span_id]) } else { r }
}

pub open spec fn mount_dm(recs: Seq<RecV>, d: DMap) -> DMap
    decreases recs.len(),
{
    if recs.len() == 0 { d } else { mount_dm(recs.drop_last(), d).remove(recs.last().span_id) }
}

pub open spec fn mount_recs(recs: Seq<RecV>, d: DMap) -> Seq<RecV>
    decreases recs.len(),
{
    if recs.len() == 0 {
        Seq::empty()
    } else {
        mount_recs(recs.drop_last(), d).push(mount_step_rec(recs.last(), mount_dm(recs.drop_last(), d)))
    }
}

// with nothing parked, mounting changes nothing (justifies the early return)
pub proof fn lemma_mount_empty(recs: Seq<RecV>, d: DMap)
    requires d.dom() =~= Set::<SpanId>::empty(),
    ensures mount_recs(recs, d) =~= recs, mount_dm(recs, d) =~= d,
    decreases recs.len(),
{
    if recs.len() > 0 {
        lemma_mount_empty(recs.drop_last(), d);
        assert(mount_dm(recs.drop_last(), d) =~= d);
        assert(mount_recs(recs, d) =~= recs.drop_last().push(recs.last()));
    }
}

// mounting a concatenation = mounting the first part, then the second with what is left
pub proof fn lemma_mount_split(a: Seq<RecV>, b: Seq<RecV>, d: DMap)
    ensures
        mount_dm(a + b, d) =~= mount_dm(b, mount_dm(a, d)),
        mount_recs(a + b, d) =~= mount_recs(a, d) + mount_recs(b, mount_dm(a, d)),
    decreases b.len(),
{
    if b.len() == 0 {
        assert(a + b =~= a);
    } else {
        lemma_mount_split(a, b.drop_last(), d);
        assert((a + b).drop_last() =~= a + b.drop_last());
        assert((a + b).last() == b.last());
    }
}

// ---- a captured local set delivered under (trace_id, parent_id): its events and late properties
// are attached to the set's own spans first (so that two copies of one set in the same trace, which
// carry the same span ids, cannot take each other's attachments -- C17); only what is addressed to a
// span outside the set (the parent the set is delivered under) is left to be parked with the batch
pub open spec fn local_recs(spans: Seq<RawSpan>, end_time: Instant, trace_id: TraceId, parent_id: SpanId, anchor: Anchor) -> Seq<RecV> {
    mount_recs(amend_local_recs(spans, end_time, trace_id, parent_id, anchor), amend_local_dm(spans, parent_id, Map::empty(), anchor))
}

pub open spec fn local_left(spans: Seq<RawSpan>, end_time: Instant, trace_id: TraceId, parent_id: SpanId, anchor: Anchor) -> DMap {
    mount_dm(amend_local_recs(spans, end_time, trace_id, parent_id, anchor), amend_local_dm(spans, parent_id, Map::empty(), anchor))
}

// ---- a batch of span collections processed into one danglings map, then mounted
pub open spec fn sc_set(c: SpanCollection) -> SpanSet {
    match c {
        SpanCollection::Owned { spans, trace_id, parent_id } => spans,
        SpanCollection::Shared { spans, trace_id, parent_id } => *spans,
    }
}

pub open spec fn sc_trace(c: SpanCollection) -> TraceId {
    match c {
        SpanCollection::Owned { spans, trace_id, parent_id } => trace_id,
        SpanCollection::Shared { spans, trace_id, parent_id } => trace_id,
    }
}

pub open spec fn sc_parent(c: SpanCollection) -> SpanId {
    match c {
        SpanCollection::Owned { spans, trace_id, parent_id } => parent_id,
        SpanCollection::Shared { spans, trace_id, parent_id } => parent_id,
    }
}

pub open spec fn set_recs(set: SpanSet, trace_id: TraceId, parent_id: SpanId, anchor: Anchor) -> Seq<RecV> {
    match set {
        SpanSet::Span(raw) => amend_span_recs(raw, trace_id, parent_id, anchor),
        SpanSet::LocalSpansInner(ls) => local_recs(ls.spans@, ls.end_time, trace_id, parent_id, anchor),
        SpanSet::SharedLocalSpans(ls) => local_recs(ls.spans@, ls.end_time, trace_id, parent_id, anchor),
    }
}

pub open spec fn set_dm(set: SpanSet, trace_id: TraceId, parent_id: SpanId, d: DMap, anchor: Anchor) -> DMap {
    match set {
        SpanSet::Span(raw) => amend_span_dm(raw, parent_id, d, anchor),
        SpanSet::LocalSpansInner(ls) => dm_merge(d, local_left(ls.spans@, ls.end_time, trace_id, parent_id, anchor)),
        SpanSet::SharedLocalSpans(ls) => dm_merge(d, local_left(ls.spans@, ls.end_time, trace_id, parent_id, anchor)),
    }
}

// a span collection by content (Owned and Shared only differ in how the set is held)
pub struct CollV { pub set: SpanSet, pub trace_id: TraceId, pub parent_id: SpanId }

pub open spec fn cv(c: SpanCollection) -> CollV {
    CollV { set: sc_set(c), trace_id: sc_trace(c), parent_id: sc_parent(c) }
}

pub open spec fn cvs(cs: Seq<SpanCollection>) -> Seq<CollV> {
    cs.map_values(|c: SpanCollection| cv(c))
}

pub open spec fn colls_recs(cs: Seq<CollV>, anchor: Anchor) -> Seq<RecV>
    decreases cs.len(),
{
    if cs.len() == 0 { Seq::empty() } else {
        colls_recs(cs.drop_last(), anchor) + set_recs(cs.last().set, cs.last().trace_id, cs.last().parent_id, anchor)
    }
}

pub open spec fn colls_dm(cs: Seq<CollV>, d: DMap, anchor: Anchor) -> DMap
    decreases cs.len(),
{
    if cs.len() == 0 { d } else {
        set_dm(cs.last().set, cs.last().trace_id, cs.last().parent_id, colls_dm(cs.drop_last(), d, anchor), anchor)
    }
}

// what one postprocess call appends to the output / leaves parked
pub open spec fn post_recs(cs: Seq<CollV>, d: DMap, anchor: Anchor) -> Seq<RecV> {
    mount_recs(colls_recs(cs, anchor), colls_dm(cs, d, anchor))
}

pub open spec fn post_dm(cs: Seq<CollV>, d: DMap, anchor: Anchor) -> DMap {
    mount_dm(colls_recs(cs, anchor), colls_dm(cs, d, anchor))
}

// R4: `&mut V[from..]` -- the tail of a vector as a mutable slice (vstd has no contract for it)
#[verifier::external_body]
pub fn vec_tail_mut<T>(v: &mut Vec<T>, from: usize) -> (r: &mut [T])
    requires from <= old(v)@.len(),
    ensures
        r@ == old(v)@.skip(from as int),
        final(r)@.len() == r@.len(),
        final(v)@ == old(v)@.take(from as int) + final(r)@,
{ &mut v[from..] }

// ---------------------------------------------------------------------------
// TRUSTED: the collector's surroundings
// ---------------------------------------------------------------------------
// R6: Box<dyn Reporter> -> ReporterLog.  `reported()` is the ghost history of report() calls,
// one entry (the batch, by content) per call.
#[verifier::external_body]
pub struct ReporterLog { _p: u8 }

impl ReporterLog {
    pub uninterp spec fn reported(&self) -> Seq<Seq<RecV>>;

    #[verifier::external_body]
    pub fn report(&mut self, spans: Vec<SpanRecord>)
        ensures final(self).reported() == old(self).reported().push(recs_view(spans@)),
    { unimplemented!() }
}

// R4: V.drain(..) consumed completely by a for loop
#[verifier::external_body]
pub fn vec_drain_all<T>(v: &mut Vec<T>) -> (r: Vec<T>)
    ensures r@ == old(v)@, final(v)@ == Seq::<T>::empty(),
{ v.drain(..).collect() }

// R4: M.get_mut(&K)
#[verifier::external_body]
pub fn hm_get_mut<'a>(m: &'a mut HashMap<usize, ActiveCollector>, k: &usize) -> (r: Option<&'a mut ActiveCollector>)
    ensures
        r is Some <==> old(m)@.contains_key(*k),
        r is None ==> *final(m) == *old(m),
        r is Some ==> *(r->Some_0) == old(m)@[*k] && final(m)@ == old(m)@.insert(*k, *final(r->Some_0)),
{ m.get_mut(k) }

// R4: for V in M.values_mut() -> iterate over a snapshot of the keys (each key once, any order)
#[verifier::external_body]
pub fn hm_keys(m: &HashMap<usize, ActiveCollector>) -> (r: Vec<usize>)
    ensures r@.no_duplicates(), r@.to_set() == m@.dom(),
{ m.keys().copied().collect() }

// R7: what one collector cycle receives.  Environment model: ANY four lists (per-thread FIFO order
// inside each list is all that is known; no consistent cut across threads is promised).
#[verifier::external_body]
pub fn drain_receivers(start_collects: &mut Vec<StartCollect>, drop_collects: &mut Vec<DropCollect>,
                       commit_collects: &mut Vec<CommitCollect>, submit_spans: &mut Vec<SubmitSpans>)
    ensures
        // the only thing known about what arrives: a submission never has an empty token
        // (GlobalCollect::submit_spans sends nothing in that case -- obligation of unit `cmd`)
        forall|i: int| 0 <= i < final(submit_spans)@.len() ==> (#[trigger] final(submit_spans)@[i]).collect_token@.len() > 0,
{ unimplemented!() }

// the receiving end of one thread's command queue (contract proved in units/spsc)
#[verifier::external_body]
#[verifier::reject_recursive_types(T)]
pub struct Receiver<T> { _p: core::marker::PhantomData<T> }
pub struct ChannelClosed;

impl<T> Receiver<T> {
    pub uninterp spec fn popped(&self) -> Seq<T>;
    pub uninterp spec fn drained(&self) -> bool;
    pub uninterp spec fn closed(&self) -> bool;     // the producing thread is gone

    #[verifier::external_body]
    pub fn try_recv(&mut self) -> (r: Result<Option<T>, ChannelClosed>)
        ensures
            r is Ok && r->Ok_0 is Some ==> final(self).popped() == old(self).popped().push(r->Ok_0->Some_0),
            !(r is Ok && r->Ok_0 is Some) ==> final(self).popped() == old(self).popped(),
            r is Err ==> final(self).drained(),
            old(self).closed() && !(r is Ok && r->Ok_0 is Some) ==> r is Err,
            old(self).closed() ==> final(self).closed(),
    { unimplemented!() }
}

// ---------------------------------------------------------------------------
// The oracle for one collector cycle (definitions).  State by content:
//   ActMap: collect id -> (buffered collections, parked attachments)
// A cycle applies, in this order: starts, drops, submits, commits, (default config only) a sweep
// over the still-active traces, the stale submissions; then reports once.
// ---------------------------------------------------------------------------
pub struct ActV { pub colls: Seq<CollV>, pub dm: DMap }
pub type ActMap = Map<usize, ActV>;

pub open spec fn act_of(a: ActiveCollector) -> ActV {
    ActV { colls: cvs(a.span_collections@), dm: dmap_of(a.danglings) }
}

pub open spec fn act_view(m: HashMap<usize, ActiveCollector>) -> ActMap {
    Map::new(m@.dom(), |k: usize| act_of(m@[k]))
}

pub open spec fn act_fresh() -> ActV {
    ActV { colls: Seq::empty(), dm: Map::empty() }
}

pub open spec fn start_ids(v: Seq<StartCollect>) -> Seq<usize> { v.map_values(|c: StartCollect| c.collect_id) }
pub open spec fn drop_ids(v: Seq<DropCollect>) -> Seq<usize> { v.map_values(|c: DropCollect| c.collect_id) }
pub open spec fn commit_ids(v: Seq<CommitCollect>) -> Seq<usize> { v.map_values(|c: CommitCollect| c.collect_id) }

pub open spec fn ph_starts(act: ActMap, ids: Seq<usize>) -> ActMap
    decreases ids.len(),
{
    if ids.len() == 0 { act } else { ph_starts(act, ids.drop_last()).insert(ids.last(), act_fresh()) }
}

pub open spec fn ph_drops(act: ActMap, ids: Seq<usize>) -> ActMap
    decreases ids.len(),
{
    if ids.len() == 0 { act } else { ph_drops(act, ids.drop_last()).remove(ids.last()) }
}

// one parent item of one submission: buffered with its trace if that trace is active; otherwise
// delivered at once as "stale" in the default configuration and discarded when cancelable
pub open spec fn item_cv(set: SpanSet, item: CollectTokenItem) -> CollV {
    CollV { set, trace_id: item.trace_id, parent_id: item.parent_id }
}

pub open spec fn item_act(act: ActMap, set: SpanSet, item: CollectTokenItem) -> ActMap {
    if act.contains_key(item.collect_id) {
        act.insert(item.collect_id, ActV { colls: act[item.collect_id].colls.push(item_cv(set, item)), dm: act[item.collect_id].dm })
    } else {
        act
    }
}

pub open spec fn item_stale(act: ActMap, stale: Seq<CollV>, set: SpanSet, item: CollectTokenItem, cancelable: bool) -> Seq<CollV> {
    if !act.contains_key(item.collect_id) && !cancelable { stale.push(item_cv(set, item)) } else { stale }
}

pub open spec fn items_act(act: ActMap, set: SpanSet, items: Seq<CollectTokenItem>) -> ActMap
    decreases items.len(),
{
    if items.len() == 0 { act } else { item_act(items_act(act, set, items.drop_last()), set, items.last()) }
}

pub open spec fn items_stale(act: ActMap, stale: Seq<CollV>, set: SpanSet, items: Seq<CollectTokenItem>, cancelable: bool) -> Seq<CollV>
    decreases items.len(),
{
    if items.len() == 0 { stale } else {
        item_stale(items_act(act, set, items.drop_last()), items_stale(act, stale, set, items.drop_last(), cancelable), set, items.last(), cancelable)
    }
}

pub open spec fn ph_submits_act(act: ActMap, subs: Seq<SubmitSpans>) -> ActMap
    decreases subs.len(),
{
    if subs.len() == 0 { act } else {
        items_act(ph_submits_act(act, subs.drop_last()), subs.last().spans, subs.last().collect_token@)
    }
}

pub open spec fn ph_submits_stale(act: ActMap, stale: Seq<CollV>, subs: Seq<SubmitSpans>, cancelable: bool) -> Seq<CollV>
    decreases subs.len(),
{
    if subs.len() == 0 { stale } else {
        items_stale(ph_submits_act(act, subs.drop_last()), ph_submits_stale(act, stale, subs.drop_last(), cancelable),
            subs.last().spans, subs.last().collect_token@, cancelable)
    }
}

pub open spec fn ph_commits_act(act: ActMap, ids: Seq<usize>) -> ActMap
    decreases ids.len(),
{
    if ids.len() == 0 { act } else { ph_commits_act(act, ids.drop_last()).remove(ids.last()) }
}

pub open spec fn commit_out(a: ActMap, id: usize, anchor: Anchor) -> Seq<RecV> {
    if a.contains_key(id) { post_recs(a[id].colls, a[id].dm, anchor) } else { Seq::empty() }
}

pub open spec fn ph_commits_out(act: ActMap, ids: Seq<usize>, anchor: Anchor) -> Seq<RecV>
    decreases ids.len(),
{
    if ids.len() == 0 { Seq::empty() } else {
        ph_commits_out(act, ids.drop_last(), anchor) + commit_out(ph_commits_act(act, ids.drop_last()), ids.last(), anchor)
    }
}

// default configuration: every still-active trace delivers what it has buffered and keeps only
// the attachments whose span has not arrived yet
pub open spec fn sweep_act1(a: ActMap, k: usize, anchor: Anchor) -> ActMap {
    if a.contains_key(k) { a.insert(k, ActV { colls: Seq::empty(), dm: post_dm(a[k].colls, a[k].dm, anchor) }) } else { a }
}

pub open spec fn ph_sweep_act(act: ActMap, ks: Seq<usize>, anchor: Anchor) -> ActMap
    decreases ks.len(),
{
    if ks.len() == 0 { act } else { sweep_act1(ph_sweep_act(act, ks.drop_last(), anchor), ks.last(), anchor) }
}

pub open spec fn ph_sweep_out(act: ActMap, ks: Seq<usize>, anchor: Anchor) -> Seq<RecV>
    decreases ks.len(),
{
    if ks.len() == 0 { Seq::empty() } else {
        ph_sweep_out(act, ks.drop_last(), anchor) + commit_out(ph_sweep_act(act, ks.drop_last(), anchor), ks.last(), anchor)
    }
}

pub open spec fn ph_stale_out(stale: Seq<CollV>, anchor: Anchor) -> Seq<RecV>
    decreases stale.len(),
{
    if stale.len() == 0 { Seq::empty() } else {
        ph_stale_out(stale.drop_last(), anchor) + post_recs(seq![stale.last()], Map::empty(), anchor)
    }
}

// the whole cycle
pub struct Batch {
    pub starts: Seq<usize>,
    pub drops: Seq<usize>,
    pub submits: Seq<SubmitSpans>,
    pub commits: Seq<usize>,
}

// C04: cancel() (a DropCollect) suppresses its trace when the collector is cancelable and
// "changes nothing about what is delivered" in the default configuration
pub open spec fn cy_act2(act: ActMap, b: Batch, cancelable: bool) -> ActMap {
    if cancelable { ph_drops(ph_starts(act, b.starts), b.drops) } else { ph_starts(act, b.starts) }
}

pub open spec fn cy_act3(act: ActMap, b: Batch, cancelable: bool) -> ActMap {
    ph_submits_act(cy_act2(act, b, cancelable), b.submits)
}

pub open spec fn cy_stale(act: ActMap, b: Batch, cancelable: bool) -> Seq<CollV> {
    ph_submits_stale(cy_act2(act, b, cancelable), Seq::empty(), b.submits, cancelable)
}

pub open spec fn cy_act4(act: ActMap, b: Batch, cancelable: bool) -> ActMap {
    ph_commits_act(cy_act3(act, b, cancelable), b.commits)
}

pub open spec fn cy_final_act(act: ActMap, b: Batch, cancelable: bool, ks: Seq<usize>, anchor: Anchor) -> ActMap {
    if cancelable { cy_act4(act, b, cancelable) } else { ph_sweep_act(cy_act4(act, b, cancelable), ks, anchor) }
}

pub open spec fn cy_out(act: ActMap, b: Batch, cancelable: bool, ks: Seq<usize>, anchor: Anchor) -> Seq<RecV> {
    ph_commits_out(cy_act3(act, b, cancelable), b.commits, anchor)
        + (if cancelable { Seq::empty() } else { ph_sweep_out(cy_act4(act, b, cancelable), ks, anchor) })
        + ph_stale_out(cy_stale(act, b, cancelable), anchor)
}

impl GlobalCollector {
    pub open spec fn scratch_empty(&self) -> bool {
        &&& self.start_collects@.len() == 0
        &&& self.drop_collects@.len() == 0
        &&& self.commit_collects@.len() == 0
        &&& self.submit_spans@.len() == 0
        &&& self.stale_spans@.len() == 0
    }
}

pub open spec fn batch_ok(b: Batch) -> bool {
    forall|i: int| 0 <= i < b.submits.len() ==> (#[trigger] b.submits[i]).collect_token@.len() > 0
}

pub open spec fn keys_ok(ks: Seq<usize>, a: ActMap) -> bool {
    ks.no_duplicates() && ks.to_set() =~= a.dom()
}

pub open spec fn cy_wit(b: Batch, ks: Seq<usize>, anchor: Anchor) -> bool { true }

pub open spec fn hc_frame(config: Config, reporter: Option<ReporterLog>, o: GlobalCollector) -> bool {
    config == o.config && reporter == o.reporter && o.reporter is Some
}

// derived Default of ActiveCollector: empty vector, empty map (Rust's derive; assumed)
pub assume_specification [<ActiveCollector as Default>::default] () -> (r: ActiveCollector)
    ensures r.span_collections@ =~= Seq::<SpanCollection>::empty(), r.danglings@ =~= Map::<SpanId, Vec<DanglingItem>>::empty();

// ---- drain_one (the closure given to retain_mut): commands by kind, order kept
pub open spec fn starts_of(cmds: Seq<CollectCommand>) -> Seq<StartCollect>
    decreases cmds.len(),
{
    if cmds.len() == 0 { Seq::empty() } else {
        match cmds.last() { CollectCommand::StartCollect(c) => starts_of(cmds.drop_last()).push(c), _ => starts_of(cmds.drop_last()) }
    }
}

pub open spec fn drops_of(cmds: Seq<CollectCommand>) -> Seq<DropCollect>
    decreases cmds.len(),
{
    if cmds.len() == 0 { Seq::empty() } else {
        match cmds.last() { CollectCommand::DropCollect(c) => drops_of(cmds.drop_last()).push(c), _ => drops_of(cmds.drop_last()) }
    }
}

pub open spec fn commits_of(cmds: Seq<CollectCommand>) -> Seq<CommitCollect>
    decreases cmds.len(),
{
    if cmds.len() == 0 { Seq::empty() } else {
        match cmds.last() { CollectCommand::CommitCollect(c) => commits_of(cmds.drop_last()).push(c), _ => commits_of(cmds.drop_last()) }
    }
}

pub open spec fn submits_of(cmds: Seq<CollectCommand>) -> Seq<SubmitSpans>
    decreases cmds.len(),
{
    if cmds.len() == 0 { Seq::empty() } else {
        match cmds.last() { CollectCommand::SubmitSpans(c) => submits_of(cmds.drop_last()).push(c), _ => submits_of(cmds.drop_last()) }
    }
}

// what was received in this call
pub open spec fn received(o: Receiver<CollectCommand>, n: Receiver<CollectCommand>) -> Seq<CollectCommand> {
    n.popped().skip(o.popped().len() as int)
}
