// ---------------------------------------------------------------------------
// Property theorems over the cycle oracle.  handle_commands is proved (above) to
// compute exactly cy_final_act / cy_out for whatever batch a cycle receives, so
// these hold for the real collector for every batch and every history of batches.
// ---------------------------------------------------------------------------

// ---- which traces are retained
pub proof fn lemma_starts_dom(a: ActMap, ids: Seq<usize>)
    ensures ph_starts(a, ids).dom() =~= a.dom() + ids.to_set(),
    decreases ids.len(),
{
    if ids.len() > 0 {
        lemma_starts_dom(a, ids.drop_last());
        assert(ids.to_set() =~= ids.drop_last().to_set().insert(ids.last())) by {
            assert forall|x: usize| ids.to_set().contains(x) <==> ids.drop_last().to_set().insert(ids.last()).contains(x) by {
                if ids.contains(x) {
                    let i = choose|i: int| 0 <= i < ids.len() && ids[i] == x;
                    if i < ids.len() - 1 { assert(ids.drop_last()[i] == x); }
                }
                if ids.drop_last().contains(x) {
                    let i = choose|i: int| 0 <= i < ids.drop_last().len() && ids.drop_last()[i] == x;
                    assert(ids[i] == x);
                }
            }
        }
    } else {
        assert(ids.to_set() =~= Set::<usize>::empty());
    }
}

pub proof fn lemma_remove_dom(f: spec_fn(ActMap, Seq<usize>) -> ActMap, a: ActMap, ids: Seq<usize>)
    requires
        forall|x: ActMap, s: Seq<usize>| #[trigger] f(x, s) == (if s.len() == 0 { x } else { f(x, s.drop_last()).remove(s.last()) }),
    ensures
        f(a, ids).dom() =~= a.dom() - ids.to_set(),
        forall|k: usize| f(a, ids).contains_key(k) ==> #[trigger] f(a, ids)[k] == a[k],
    decreases ids.len(),
{
    if ids.len() > 0 {
        lemma_remove_dom(f, a, ids.drop_last());
        assert forall|x: usize| ids.to_set().contains(x) <==> (ids.drop_last().to_set().contains(x) || x == ids.last()) by {
            if ids.contains(x) {
                let i = choose|i: int| 0 <= i < ids.len() && ids[i] == x;
                if i < ids.len() - 1 { assert(ids.drop_last()[i] == x); }
            }
            if ids.drop_last().contains(x) {
                let i = choose|i: int| 0 <= i < ids.drop_last().len() && ids.drop_last()[i] == x;
                assert(ids[i] == x);
            }
            if x == ids.last() { assert(ids[ids.len() - 1] == x); }
        }
    } else {
        assert(ids.to_set() =~= Set::<usize>::empty());
    }
}

pub proof fn lemma_drops_dom(a: ActMap, ids: Seq<usize>)
    ensures
        ph_drops(a, ids).dom() =~= a.dom() - ids.to_set(),
        forall|k: usize| ph_drops(a, ids).contains_key(k) ==> #[trigger] ph_drops(a, ids)[k] == a[k],
{
    lemma_remove_dom(|x: ActMap, s: Seq<usize>| ph_drops(x, s), a, ids);
}

pub proof fn lemma_commits_dom(a: ActMap, ids: Seq<usize>)
    ensures
        ph_commits_act(a, ids).dom() =~= a.dom() - ids.to_set(),
        forall|k: usize| ph_commits_act(a, ids).contains_key(k) ==> #[trigger] ph_commits_act(a, ids)[k] == a[k],
{
    lemma_remove_dom(|x: ActMap, s: Seq<usize>| ph_commits_act(x, s), a, ids);
}

pub proof fn lemma_items_dom(a: ActMap, set: SpanSet, items: Seq<CollectTokenItem>)
    ensures items_act(a, set, items).dom() =~= a.dom(),
    decreases items.len(),
{
    if items.len() > 0 { lemma_items_dom(a, set, items.drop_last()); }
}

pub proof fn lemma_submits_dom(a: ActMap, subs: Seq<SubmitSpans>)
    ensures ph_submits_act(a, subs).dom() =~= a.dom(),
    decreases subs.len(),
{
    if subs.len() > 0 {
        lemma_submits_dom(a, subs.drop_last());
        lemma_items_dom(ph_submits_act(a, subs.drop_last()), subs.last().spans, subs.last().collect_token@);
    }
}

pub proof fn lemma_sweep_dom(a: ActMap, ks: Seq<usize>, anchor: Anchor)
    ensures ph_sweep_act(a, ks, anchor).dom() =~= a.dom(),
    decreases ks.len(),
{
    if ks.len() > 0 { lemma_sweep_dom(a, ks.drop_last(), anchor); }
}

// C08: after a cycle the collector holds an entry exactly for the traces that were active or
// started and were neither committed nor (cancelable) dropped in this batch.
pub proof fn thm_c08_retained_traces(a: ActMap, b: Batch, cancelable: bool, ks: Seq<usize>, anchor: Anchor)
    ensures
        cy_final_act(a, b, cancelable, ks, anchor).dom() =~=
            (if cancelable { (a.dom() + b.starts.to_set()) - b.drops.to_set() } else { a.dom() + b.starts.to_set() }) - b.commits.to_set(),
{
    lemma_starts_dom(a, b.starts);
    lemma_drops_dom(ph_starts(a, b.starts), b.drops);
    lemma_submits_dom(cy_act2(a, b, cancelable), b.submits);
    lemma_commits_dom(cy_act3(a, b, cancelable), b.commits);
    lemma_sweep_dom(cy_act4(a, b, cancelable), ks, anchor);
}

// C08: a trace whose root finished (commit) or was cancelled (drop, cancelable) in this batch is
// not retained
pub proof fn thm_c08_finished_traces_not_retained(a: ActMap, b: Batch, cancelable: bool, ks: Seq<usize>, anchor: Anchor, c: usize)
    requires b.commits.contains(c) || (cancelable && b.drops.contains(c)),
    ensures !cy_final_act(a, b, cancelable, ks, anchor).contains_key(c),
{
    thm_c08_retained_traces(a, b, cancelable, ks, anchor);
}

// C01/C08 (default configuration): whatever a cycle buffered it also delivers -- no span
// collection is left in any active trace at the end of the cycle
pub proof fn lemma_sweep_empties(a: ActMap, ks: Seq<usize>, anchor: Anchor, k: usize)
    requires ks.contains(k), a.contains_key(k),
    ensures ph_sweep_act(a, ks, anchor)[k].colls =~= Seq::<CollV>::empty(),
    decreases ks.len(),
{
    lemma_sweep_dom(a, ks.drop_last(), anchor);
    if ks.last() == k {
    } else {
        let i = choose|i: int| 0 <= i < ks.len() && ks[i] == k;
        assert(ks.drop_last()[i] == k);
        lemma_sweep_empties(a, ks.drop_last(), anchor, k);
    }
}

pub proof fn thm_c01_default_mode_leaves_nothing_buffered(a: ActMap, b: Batch, ks: Seq<usize>, anchor: Anchor, k: usize)
    requires keys_ok(ks, cy_act4(a, b, false)), cy_final_act(a, b, false, ks, anchor).contains_key(k),
    ensures cy_final_act(a, b, false, ks, anchor)[k].colls =~= Seq::<CollV>::empty(),
{
    lemma_sweep_dom(cy_act4(a, b, false), ks, anchor);
    assert(ks.to_set().contains(k));
    lemma_sweep_empties(cy_act4(a, b, false), ks, anchor, k);
}

// ---- C03: in cancelable mode nothing is reported except what a commit of this batch releases
pub proof fn lemma_items_stale_cancelable(a: ActMap, st: Seq<CollV>, set: SpanSet, items: Seq<CollectTokenItem>)
    ensures items_stale(a, st, set, items, true) == st,
    decreases items.len(),
{
    if items.len() > 0 { lemma_items_stale_cancelable(a, st, set, items.drop_last()); }
}

pub proof fn lemma_submits_stale_cancelable(a: ActMap, st: Seq<CollV>, subs: Seq<SubmitSpans>)
    ensures ph_submits_stale(a, st, subs, true) == st,
    decreases subs.len(),
{
    if subs.len() > 0 {
        lemma_submits_stale_cancelable(a, st, subs.drop_last());
        lemma_items_stale_cancelable(ph_submits_act(a, subs.drop_last()), st, subs.last().spans, subs.last().collect_token@);
    }
}

pub proof fn thm_c03_cancelable_reports_only_committed_traces(a: ActMap, b: Batch, ks: Seq<usize>, anchor: Anchor)
    ensures cy_out(a, b, true, ks, anchor) =~= ph_commits_out(cy_act3(a, b, true), b.commits, anchor),
{
    lemma_submits_stale_cancelable(cy_act2(a, b, true), Seq::empty(), b.submits);
    assert(ph_stale_out(Seq::<CollV>::empty(), anchor) =~= Seq::<RecV>::empty());
}

// C03/C04: a trace that is not active when a submission for it arrives gets nothing buffered and
// (cancelable) nothing delivered: late spans of a finished or cancelled trace are discarded
pub proof fn thm_c03_late_submission_discarded(a: ActMap, st: Seq<CollV>, set: SpanSet, item: CollectTokenItem)
    requires !a.contains_key(item.collect_id),
    ensures item_act(a, set, item) == a, item_stale(a, st, set, item, true) == st,
{}

// ---- C04
// cancelable: a trace dropped in this batch contributes nothing to the report of this batch
pub proof fn lemma_commit_out_absent(a: ActMap, ids: Seq<usize>, anchor: Anchor, c: usize)
    requires !a.contains_key(c),
    ensures forall|i: int| 0 <= i < ids.len() && ids[i] == c ==> #[trigger] commit_out(ph_commits_act(a, ids.take(i)), ids[i], anchor) =~= Seq::<RecV>::empty(),
{
    assert forall|i: int| 0 <= i < ids.len() && ids[i] == c implies #[trigger] commit_out(ph_commits_act(a, ids.take(i)), ids[i], anchor) =~= Seq::<RecV>::empty() by {
        lemma_commits_dom(a, ids.take(i));
    }
}

pub proof fn thm_c04_cancelled_trace_is_silent(a: ActMap, b: Batch, anchor: Anchor, c: usize)
    requires b.drops.contains(c),
    ensures
        !cy_act3(a, b, true).contains_key(c),
        forall|i: int| 0 <= i < b.commits.len() && b.commits[i] == c ==>
            #[trigger] commit_out(ph_commits_act(cy_act3(a, b, true), b.commits.take(i)), b.commits[i], anchor) =~= Seq::<RecV>::empty(),
{
    lemma_starts_dom(a, b.starts);
    lemma_drops_dom(ph_starts(a, b.starts), b.drops);
    lemma_submits_dom(cy_act2(a, b, true), b.submits);
    lemma_commit_out_absent(cy_act3(a, b, true), b.commits, anchor, c);
}

// cancelable: dropping c does not disturb what is buffered for any other trace
pub proof fn thm_c04_other_traces_unaffected(a: ActMap, ids: Seq<usize>, k: usize)
    requires a.contains_key(k), !ids.contains(k),
    ensures ph_drops(a, ids).contains_key(k), ph_drops(a, ids)[k] == a[k],
{
    lemma_drops_dom(a, ids);
}

// default configuration: cancel() changes nothing about what is delivered or retained
pub proof fn thm_c04_cancel_is_noop_in_default_configuration(a: ActMap, b: Batch, drops2: Seq<usize>, ks: Seq<usize>, anchor: Anchor)
    ensures
        cy_out(a, b, false, ks, anchor) == cy_out(a, Batch { drops: drops2, ..b }, false, ks, anchor),
        cy_final_act(a, b, false, ks, anchor) == cy_final_act(a, Batch { drops: drops2, ..b }, false, ks, anchor),
{}

// ---------------------------------------------------------------------------
// Record-level theorems (C01 exactly once, C02 identity/parents, C06 attachments, C17 copies,
// C18 times) over amend / mount.
// ---------------------------------------------------------------------------
pub open spec fn span_count(spans: Seq<RawSpan>) -> nat
    decreases spans.len(),
{
    if spans.len() == 0 { 0 } else { span_count(spans.drop_last()) + (if spans.last().raw_kind == RawKind::Span { 1nat } else { 0nat }) }
}

// C01: a set of local spans yields exactly one record per recorded span (events / property
// carriers yield none), in recording order
pub proof fn thm_c01_one_record_per_local_span(spans: Seq<RawSpan>, end: Instant, t: TraceId, p: SpanId, a: Anchor)
    ensures amend_local_recs(spans, end, t, p, a).len() == span_count(spans),
    decreases spans.len(),
{
    if spans.len() > 0 { thm_c01_one_record_per_local_span(spans.drop_last(), end, t, p, a); }
}

// C01/C06: mounting attachments neither drops, duplicates nor reorders records and leaves their
// identity and times alone
pub open spec fn same_identity(x: RecV, y: RecV) -> bool {
    x.trace_id == y.trace_id && x.span_id == y.span_id && x.parent_id == y.parent_id
        && x.begin == y.begin && x.duration == y.duration && x.name == y.name
}

pub proof fn lemma_attach_identity(r: RecV, items: Seq<DangV>)
    ensures same_identity(attach(r, items), r),
    decreases items.len(),
{
    if items.len() > 0 { lemma_attach_identity(r, items.drop_last()); }
}

pub proof fn thm_c01_mount_keeps_every_record_once(recs: Seq<RecV>, d: DMap)
    ensures
        mount_recs(recs, d).len() == recs.len(),
        forall|i: int| 0 <= i < recs.len() ==> same_identity(#[trigger] mount_recs(recs, d)[i], recs[i]),
    decreases recs.len(),
{
    if recs.len() > 0 {
        thm_c01_mount_keeps_every_record_once(recs.drop_last(), d);
        let dd = mount_dm(recs.drop_last(), d);
        if dd.contains_key(recs.last().span_id) { lemma_attach_identity(recs.last(), dd[recs.last().span_id]); }
        assert forall|i: int| 0 <= i < recs.len() implies same_identity(#[trigger] mount_recs(recs, d)[i], recs[i]) by {
            if i < recs.len() - 1 {
                assert(mount_recs(recs, d)[i] == mount_recs(recs.drop_last(), d)[i]);
                assert(recs.drop_last()[i] == recs[i]);
            }
        }
    }
}

// C02: every record of a local set carries the trace id of the parent item it is delivered under;
// a span recorded with parent 0 (root of the set) gets the item's parent, any other keeps its own
pub open spec fn nth_span(spans: Seq<RawSpan>, n: nat) -> RawSpan
    recommends n < span_count(spans),
    decreases spans.len(),
{
    if spans.len() == 0 { arbitrary() }
    else if spans.last().raw_kind == RawKind::Span && span_count(spans.drop_last()) == n { spans.last() }
    else { nth_span(spans.drop_last(), n) }
}

pub proof fn thm_c02_local_records_identify_trace_and_parent(spans: Seq<RawSpan>, end: Instant, t: TraceId, p: SpanId, a: Anchor, n: nat)
    requires n < span_count(spans),
    ensures
        amend_local_recs(spans, end, t, p, a).len() == span_count(spans),
        amend_local_recs(spans, end, t, p, a)[n as int] == recv_of(nth_span(spans, n), local_end(nth_span(spans, n), end), t, amended_parent(nth_span(spans, n), p), a),
        nth_span(spans, n).raw_kind == RawKind::Span,
    decreases spans.len(),
{
    thm_c01_one_record_per_local_span(spans, end, t, p, a);
    if spans.len() > 0 {
        thm_c01_one_record_per_local_span(spans.drop_last(), end, t, p, a);
        if !(spans.last().raw_kind == RawKind::Span && span_count(spans.drop_last()) == n) {
            thm_c02_local_records_identify_trace_and_parent(spans.drop_last(), end, t, p, a, n);
        }
    }
}

// C17: the same captured set delivered under two parents gives two record sequences that differ
// only in the trace id and in the parent id of the set's roots
pub proof fn thm_c17_copies_are_identical_subtrees(spans: Seq<RawSpan>, end: Instant, t1: TraceId, p1: SpanId, t2: TraceId, p2: SpanId, a: Anchor, i: int)
    requires 0 <= i < amend_local_recs(spans, end, t1, p1, a).len(),
    ensures
        amend_local_recs(spans, end, t2, p2, a).len() == amend_local_recs(spans, end, t1, p1, a).len(),
        ({
            let x = amend_local_recs(spans, end, t1, p1, a)[i];
            let y = amend_local_recs(spans, end, t2, p2, a)[i];
            &&& x.span_id == y.span_id && x.name == y.name && x.properties == y.properties && x.events == y.events
            &&& x.begin == y.begin && x.duration == y.duration
            &&& x.trace_id == t1 && y.trace_id == t2
            &&& (x.parent_id == y.parent_id || (x.parent_id == p1 && y.parent_id == p2))
        }),
    decreases spans.len(),
{
    thm_c01_one_record_per_local_span(spans, end, t1, p1, a);
    thm_c01_one_record_per_local_span(spans, end, t2, p2, a);
    if spans.len() > 0 {
        thm_c01_one_record_per_local_span(spans.drop_last(), end, t1, p1, a);
        thm_c01_one_record_per_local_span(spans.drop_last(), end, t2, p2, a);
        if i < amend_local_recs(spans.drop_last(), end, t1, p1, a).len() {
            thm_c17_copies_are_identical_subtrees(spans.drop_last(), end, t1, p1, t2, p2, a, i);
        }
    }
}

// C17: to_span_records(parent) returns what one collector cycle delivers for the same set pushed
// under a span with that context (one collection, nothing parked before): the set's records with
// their own attachments mounted; a second mount with what is left changes nothing because nothing
// that is left is addressed to a span of the set
pub proof fn lemma_dm_merge_empty(l: DMap)
    ensures dm_merge(Map::<SpanId, Seq<DangV>>::empty(), l) =~= l,
{
    assert forall|k: SpanId| #[trigger] l.contains_key(k) implies dm_merge(Map::<SpanId, Seq<DangV>>::empty(), l)[k] == l[k] by {
        assert(Seq::<DangV>::empty() + l[k] =~= l[k]);
    }
}

pub proof fn thm_c17_to_span_records_is_the_collector_path(ls: LocalSpansInner, t: TraceId, p: SpanId, a: Anchor)
    ensures
        post_recs(seq![CollV { set: SpanSet::LocalSpansInner(ls), trace_id: t, parent_id: p }], Map::empty(), a)
            == mount_recs(local_recs(ls.spans@, ls.end_time, t, p, a), local_left(ls.spans@, ls.end_time, t, p, a)),
{
    let c = CollV { set: SpanSet::LocalSpansInner(ls), trace_id: t, parent_id: p };
    let cs = seq![c];
    assert(cs.drop_last() =~= Seq::<CollV>::empty());
    assert(cs.last() == c);
    assert(colls_recs(cs.drop_last(), a) =~= Seq::<RecV>::empty());
    assert(colls_dm(cs.drop_last(), Map::empty(), a) =~= Map::<SpanId, Seq<DangV>>::empty());
    assert(colls_recs(cs, a) =~= local_recs(ls.spans@, ls.end_time, t, p, a));
    lemma_dm_merge_empty(local_left(ls.spans@, ls.end_time, t, p, a));
}

// C17 (D10): nothing a local set leaves parked is addressed to one of its own spans -- so a second
// copy of the set in the same trace (same span ids) cannot receive or lose attachments through the
// batch-wide map
pub proof fn lemma_mount_dm_removes_ids(recs: Seq<RecV>, d: DMap, i: int)
    requires 0 <= i < recs.len(),
    ensures !mount_dm(recs, d).contains_key(recs[i].span_id),
    decreases recs.len(),
{
    if i < recs.len() - 1 {
        lemma_mount_dm_removes_ids(recs.drop_last(), d, i);
        assert(recs.drop_last()[i] == recs[i]);
    }
}

pub proof fn thm_c17_leftover_never_targets_the_sets_own_spans(spans: Seq<RawSpan>, end: Instant, t: TraceId, p: SpanId, a: Anchor, i: int)
    requires 0 <= i < local_recs(spans, end, t, p, a).len(),
    ensures !local_left(spans, end, t, p, a).contains_key(local_recs(spans, end, t, p, a)[i].span_id),
{
    let r = amend_local_recs(spans, end, t, p, a);
    let d = amend_local_dm(spans, p, Map::empty(), a);
    thm_c01_mount_keeps_every_record_once(r, d);
    lemma_mount_dm_removes_ids(r, d, i);
}

// C17 (D10): two copies of one captured set -- in the same trace or in different ones -- are
// delivered as identical subtrees: record by record the same id, name, times, properties AND
// events; only the trace id and the parent of the set's roots follow the parent they hang under
pub open spec fn same_payload(x: RecV, y: RecV) -> bool {
    x.span_id == y.span_id && x.name == y.name && x.begin == y.begin && x.duration == y.duration
        && x.properties == y.properties && x.events == y.events
}

pub open spec fn agree_off(d1: DMap, d2: DMap, p1: SpanId, p2: SpanId) -> bool {
    forall|k: SpanId| k != p1 && k != p2 ==> (#[trigger] d1.contains_key(k) <==> d2.contains_key(k)) && (d1.contains_key(k) ==> d1[k] == d2[k])
}

pub proof fn lemma_attach_payload(x: RecV, y: RecV, items: Seq<DangV>)
    requires same_payload(x, y),
    ensures same_payload(attach(x, items), attach(y, items)),
    decreases items.len(),
{
    if items.len() > 0 { lemma_attach_payload(x, y, items.drop_last()); }
}

pub proof fn lemma_mount_agree(r1: Seq<RecV>, r2: Seq<RecV>, d1: DMap, d2: DMap, p1: SpanId, p2: SpanId)
    requires
        r1.len() == r2.len(),
        forall|i: int| 0 <= i < r1.len() ==> same_payload(#[trigger] r1[i], r2[i]) && r1[i].span_id != p1 && r1[i].span_id != p2,
        agree_off(d1, d2, p1, p2),
    ensures
        agree_off(mount_dm(r1, d1), mount_dm(r2, d2), p1, p2),
        mount_recs(r1, d1).len() == r1.len(), mount_recs(r2, d2).len() == r1.len(),
        forall|i: int| 0 <= i < r1.len() ==> same_payload(#[trigger] mount_recs(r1, d1)[i], mount_recs(r2, d2)[i]),
    decreases r1.len(),
{
    if r1.len() > 0 {
        let a1 = r1.drop_last();
        let a2 = r2.drop_last();
        assert forall|i: int| 0 <= i < a1.len() implies same_payload(#[trigger] a1[i], a2[i]) && a1[i].span_id != p1 && a1[i].span_id != p2 by {
            assert(a1[i] == r1[i] && a2[i] == r2[i]);
        }
        lemma_mount_agree(a1, a2, d1, d2, p1, p2);
        let e1 = mount_dm(a1, d1);
        let e2 = mount_dm(a2, d2);
        let x = r1.last();
        let y = r2.last();
        assert(same_payload(x, y) && x.span_id != p1 && x.span_id != p2) by { assert(r1[r1.len() - 1] == x && r2[r2.len() - 1] == y); }
        assert(e1.contains_key(x.span_id) <==> e2.contains_key(x.span_id));
        if e1.contains_key(x.span_id) {
            assert(e1[x.span_id] == e2[x.span_id]);
            lemma_attach_payload(x, y, e1[x.span_id]);
        }
        assert(same_payload(mount_step_rec(x, e1), mount_step_rec(y, e2)));
        assert forall|i: int| 0 <= i < r1.len() implies same_payload(#[trigger] mount_recs(r1, d1)[i], mount_recs(r2, d2)[i]) by {
            if i < r1.len() - 1 {
                assert(mount_recs(r1, d1)[i] == mount_recs(a1, d1)[i]);
                assert(mount_recs(r2, d2)[i] == mount_recs(a2, d2)[i]);
            }
        }
        assert forall|k: SpanId| k != p1 && k != p2 implies
            (#[trigger] mount_dm(r1, d1).contains_key(k) <==> mount_dm(r2, d2).contains_key(k)) && (mount_dm(r1, d1).contains_key(k) ==> mount_dm(r1, d1)[k] == mount_dm(r2, d2)[k]) by {
            assert(e1.contains_key(k) <==> e2.contains_key(k));
        }
    }
}

pub proof fn lemma_local_dm_agree(spans: Seq<RawSpan>, p1: SpanId, p2: SpanId, a: Anchor)
    ensures agree_off(amend_local_dm(spans, p1, Map::empty(), a), amend_local_dm(spans, p2, Map::empty(), a), p1, p2),
    decreases spans.len(),
{
    if spans.len() > 0 {
        lemma_local_dm_agree(spans.drop_last(), p1, p2, a);
        let s = spans.last();
        let e1 = amend_local_dm(spans.drop_last(), p1, Map::empty(), a);
        let e2 = amend_local_dm(spans.drop_last(), p2, Map::empty(), a);
        if s.raw_kind != RawKind::Span {
            let k1 = amended_parent(s, p1);
            let k2 = amended_parent(s, p2);
            assert forall|k: SpanId| k != p1 && k != p2 implies
                (#[trigger] dm_park(e1, k1, dang_of(s, a)).contains_key(k) <==> dm_park(e2, k2, dang_of(s, a)).contains_key(k))
                && (dm_park(e1, k1, dang_of(s, a)).contains_key(k) ==> dm_park(e1, k1, dang_of(s, a))[k] == dm_park(e2, k2, dang_of(s, a))[k]) by {
                assert(e1.contains_key(k) <==> e2.contains_key(k));
                if k == k1 { assert(k1 == s.parent_id && k2 == s.parent_id); }
                if k == k2 { assert(k2 == s.parent_id && k1 == s.parent_id); }
            }
        }
    }
}

pub open spec fn no_span_has_id(spans: Seq<RawSpan>, p: SpanId) -> bool {
    forall|j: int| 0 <= j < spans.len() && spans[j].raw_kind == RawKind::Span ==> (#[trigger] spans[j]).id != p
}

pub proof fn lemma_local_recs_ids(spans: Seq<RawSpan>, end: Instant, t: TraceId, p: SpanId, a: Anchor, q: SpanId)
    requires no_span_has_id(spans, q),
    ensures forall|i: int| 0 <= i < amend_local_recs(spans, end, t, p, a).len() ==> (#[trigger] amend_local_recs(spans, end, t, p, a)[i]).span_id != q,
    decreases spans.len(),
{
    if spans.len() > 0 {
        assert(no_span_has_id(spans.drop_last(), q)) by {
            assert forall|j: int| 0 <= j < spans.drop_last().len() && spans.drop_last()[j].raw_kind == RawKind::Span implies (#[trigger] spans.drop_last()[j]).id != q by {
                assert(spans.drop_last()[j] == spans[j]);
            }
        }
        lemma_local_recs_ids(spans.drop_last(), end, t, p, a, q);
        assert(spans[spans.len() - 1] == spans.last());
    }
}

pub proof fn thm_c17_copies_carry_identical_attachments(spans: Seq<RawSpan>, end: Instant, t1: TraceId, p1: SpanId, t2: TraceId, p2: SpanId, a: Anchor, i: int)
    requires
        // the spans the copies are pushed to are not spans of the set
        no_span_has_id(spans, p1), no_span_has_id(spans, p2),
        0 <= i < local_recs(spans, end, t1, p1, a).len(),
    ensures
        local_recs(spans, end, t2, p2, a).len() == local_recs(spans, end, t1, p1, a).len(),
        same_payload(local_recs(spans, end, t1, p1, a)[i], local_recs(spans, end, t2, p2, a)[i]),
        local_recs(spans, end, t1, p1, a)[i].trace_id == t1 && local_recs(spans, end, t2, p2, a)[i].trace_id == t2,
{
    let r1 = amend_local_recs(spans, end, t1, p1, a);
    let r2 = amend_local_recs(spans, end, t2, p2, a);
    let d1 = amend_local_dm(spans, p1, Map::empty(), a);
    let d2 = amend_local_dm(spans, p2, Map::empty(), a);
    thm_c01_one_record_per_local_span(spans, end, t1, p1, a);
    thm_c01_one_record_per_local_span(spans, end, t2, p2, a);
    thm_c01_mount_keeps_every_record_once(r1, d1);
    thm_c01_mount_keeps_every_record_once(r2, d2);
    lemma_local_recs_ids(spans, end, t1, p1, a, p1);
    lemma_local_recs_ids(spans, end, t1, p1, a, p2);
    assert forall|j: int| 0 <= j < r1.len() implies same_payload(#[trigger] r1[j], r2[j]) && r1[j].span_id != p1 && r1[j].span_id != p2 by {
        thm_c17_copies_are_identical_subtrees(spans, end, t1, p1, t2, p2, a, j);
    }
    lemma_local_dm_agree(spans, p1, p2, a);
    lemma_mount_agree(r1, r2, d1, d2, p1, p2);
    thm_c17_copies_are_identical_subtrees(spans, end, t1, p1, t2, p2, a, i);
}

// C18: a record's duration is the (saturating) difference of the converted end and begin instants;
// a local span still open when its set was collected ends at the collection time; an event carries
// the conversion of the instant it was recorded at
pub proof fn thm_c18_times(span: RawSpan, end_time: Instant, t: TraceId, p: SpanId, a: Anchor)
    ensures
        recv_of(span, local_end(span, end_time), t, p, a).begin == unix_ns(span.begin_instant, a),
        recv_of(span, local_end(span, end_time), t, p, a).duration ==
            sat_sub(unix_ns(if span.end_instant.ticks() == 0 { end_time } else { span.end_instant }, a), unix_ns(span.begin_instant, a)),
        span.raw_kind == RawKind::Event ==> dang_of(span, a) == DangV::Event(span.name, unix_ns(span.begin_instant, a), opt_props(span.properties)),
{}

// C06: attaching a list of parked items appends their properties / events to that record in
// arrival order and touches nothing else
pub open spec fn dang_props(items: Seq<DangV>) -> Seq<(Cow<'static, str>, Cow<'static, str>)>
    decreases items.len(),
{
    if items.len() == 0 { Seq::empty() } else {
        dang_props(items.drop_last()) + (match items.last() { DangV::Properties(p) => p, DangV::Event(n, t, p) => Seq::empty() })
    }
}

pub open spec fn dang_events(items: Seq<DangV>) -> Seq<(Cow<'static, str>, u64, Seq<(Cow<'static, str>, Cow<'static, str>)>)>
    decreases items.len(),
{
    if items.len() == 0 { Seq::empty() } else {
        match items.last() {
            DangV::Event(n, t, p) => dang_events(items.drop_last()).push((n, t, p)),
            DangV::Properties(p) => dang_events(items.drop_last()),
        }
    }
}

pub proof fn thm_c06_attachments_appended_in_order(r: RecV, items: Seq<DangV>)
    ensures
        attach(r, items).properties =~= r.properties + dang_props(items),
        attach(r, items).events =~= r.events + dang_events(items),
        same_identity(attach(r, items), r),
    decreases items.len(),
{
    lemma_attach_identity(r, items);
    if items.len() > 0 { thm_c06_attachments_appended_in_order(r, items.drop_last()); }
}

// C06: parking appends at the end of that key's list and leaves every other key alone
pub proof fn thm_c06_parking_is_per_span_and_ordered(d: DMap, k: SpanId, item: DangV, k2: SpanId)
    ensures
        dm_park(d, k, item)[k] == dm_get(d, k).push(item),
        k2 != k ==> dm_get(dm_park(d, k, item), k2) == dm_get(d, k2),
{}

// C06: a record takes the items parked under *its* span id and consumes the key; records with
// other ids are not given them
pub proof fn thm_c06_mounted_on_matching_span_only(recs: Seq<RecV>, d: DMap, r: RecV)
    ensures
        mount_recs(recs.push(r), d).last() == mount_step_rec(r, mount_dm(recs, d)),
        !mount_dm(recs.push(r), d).contains_key(r.span_id),
        forall|k: SpanId| k != r.span_id ==> (mount_dm(recs.push(r), d).contains_key(k) <==> mount_dm(recs, d).contains_key(k)),
{
    assert(recs.push(r).drop_last() =~= recs);
}

// ---------------------------------------------------------------------------
// C08 over histories: "after a trace's root has finished and a collector cycle has run, the
// collector retains nothing for that trace" -- two consecutive cycles.  NOT PROVABLE, and rightly
// so: nothing prevents the second batch from containing a StartCollect for the finished id, and
// the real collector does receive such batches (the per-thread queues are drained one after
// another, so a StartCollect can arrive one cycle after the CommitCollect that happened-after it
// on another thread: findings/D7 reproduces it on the real code).  Kept as an obligation so that
// the check keeps reporting it; listed in known_findings.json, where it is printed as
// KNOWN-FINDING instead of VIOLATION.
// ---------------------------------------------------------------------------
pub proof fn thm_c08_finished_trace_stays_forgotten(a: ActMap, b1: Batch, b2: Batch, cancelable: bool, ks1: Seq<usize>, ks2: Seq<usize>, anchor1: Anchor, anchor2: Anchor, c: usize)
    requires b1.commits.contains(c),
    ensures !cy_final_act(cy_final_act(a, b1, cancelable, ks1, anchor1), b2, cancelable, ks2, anchor2).contains_key(c),
{
}

// the same statement under the assumption the code would need (a consistent cut: no StartCollect
// of c after its commit was processed) does hold:
pub proof fn thm_c08_finished_trace_stays_forgotten_given_consistent_cut(a: ActMap, b1: Batch, b2: Batch, cancelable: bool, ks1: Seq<usize>, ks2: Seq<usize>, anchor1: Anchor, anchor2: Anchor, c: usize)
    requires b1.commits.contains(c), !b2.starts.contains(c),
    ensures !cy_final_act(cy_final_act(a, b1, cancelable, ks1, anchor1), b2, cancelable, ks2, anchor2).contains_key(c),
{
    thm_c08_retained_traces(a, b1, cancelable, ks1, anchor1);
    thm_c08_retained_traces(cy_final_act(a, b1, cancelable, ks1, anchor1), b2, cancelable, ks2, anchor2);
}

// ---------------------------------------------------------------------------
// C06, "on each copy of a multi-parent span": two records of one batch that are copies of one span
// (same span id, same content before mounting) carry the same attachments after mounting.  NOT
// PROVABLE, and rightly so: mount gives everything parked under an id to the FIRST record with that
// id and removes the key (mount_dm), so the second copy gets nothing.  The real collector produces
// such batches: a span created with two parents that belong to the same trace is delivered under
// each of them with the same id, and an event or property attached through its handle is parked
// once per copy under that id (findings/D11 reproduces it on the real code: events per copy [2, 0]).
// Kept as an obligation so that the check keeps reporting it; listed in known_findings.json, where
// it is printed as KNOWN-FINDING instead of VIOLATION.  (For captured LOCAL span sets the same
// defect, D10, was repaired: thm_c17_copies_carry_identical_attachments.)
// ---------------------------------------------------------------------------
pub proof fn thm_c06_each_copy_of_a_multi_parent_span_carries_its_attachments(recs: Seq<RecV>, d: DMap, i: int, j: int)
    requires
        0 <= i < j < recs.len(),
        recs[i].span_id == recs[j].span_id, recs[i].properties == recs[j].properties, recs[i].events == recs[j].events,
    ensures
        mount_recs(recs, d)[i].events == mount_recs(recs, d)[j].events,
        mount_recs(recs, d)[i].properties == mount_recs(recs, d)[j].properties,
{
}

// what does hold: a span id that occurs once in the batch gets exactly what is parked under it
pub proof fn thm_c06_single_copy_takes_everything_parked_for_it(recs: Seq<RecV>, d: DMap, i: int)
    requires
        0 <= i < recs.len(),
        forall|j: int| 0 <= j < i ==> (#[trigger] recs[j]).span_id != recs[i].span_id,
    ensures
        mount_recs(recs, d)[i] == mount_step_rec(recs[i], d),
    decreases recs.len(),
{
    if i < recs.len() - 1 {
        assert forall|j: int| 0 <= j < i implies (#[trigger] recs.drop_last()[j]).span_id != recs.drop_last()[i].span_id by {
            assert(recs.drop_last()[j] == recs[j] && recs.drop_last()[i] == recs[i]);
        }
        thm_c06_single_copy_takes_everything_parked_for_it(recs.drop_last(), d, i);
        thm_c01_mount_keeps_every_record_once(recs.drop_last(), d);
        assert(mount_recs(recs, d)[i] == mount_recs(recs.drop_last(), d)[i]);
    } else {
        assert forall|j: int| 0 <= j < recs.drop_last().len() implies (#[trigger] recs.drop_last()[j]).span_id != recs[i].span_id by {
            assert(recs.drop_last()[j] == recs[j]);
        }
        lemma_mount_dm_keeps_other_keys(recs.drop_last(), d, recs[i].span_id);
        thm_c01_mount_keeps_every_record_once(recs.drop_last(), d);
        assert(recs.last() == recs[i]);
    }
}

pub proof fn lemma_mount_dm_keeps_other_keys(recs: Seq<RecV>, d: DMap, k: SpanId)
    requires forall|j: int| 0 <= j < recs.len() ==> (#[trigger] recs[j]).span_id != k,
    ensures mount_dm(recs, d).contains_key(k) <==> d.contains_key(k), d.contains_key(k) ==> mount_dm(recs, d)[k] == d[k],
    decreases recs.len(),
{
    if recs.len() > 0 {
        assert forall|j: int| 0 <= j < recs.drop_last().len() implies (#[trigger] recs.drop_last()[j]).span_id != k by {
            assert(recs.drop_last()[j] == recs[j]);
        }
        lemma_mount_dm_keeps_other_keys(recs.drop_last(), d, k);
        assert(recs[recs.len() - 1].span_id != k);
    }
}

// ---------------------------------------------------------------------------
// C09, "the only effect is that span sets submitted by that thread while it was full may be
// missing": a trace whose StartCollect was lost on a full queue (default configuration) still has
// its later attachments delivered on their spans.  NOT PROVABLE, and rightly so: without an entry
// for the trace every later submission takes the stale path, where each collection is post-processed
// ALONE against an empty map (ph_stale_out): the record of a span and an event submitted for it
// never meet, for the whole life of the trace and however empty the queues are by then
// (findings/hunt/C/lost_start_drops_events.rs: root and child delivered with no events and no
// properties).  Known finding D16.
// ---------------------------------------------------------------------------
pub proof fn thm_c09_attachments_of_a_trace_whose_start_was_lost_reach_their_span(span: RawSpan, ev: RawSpan, t: TraceId, p: SpanId, a: Anchor)
    requires span.raw_kind == RawKind::Span, ev.raw_kind == RawKind::Event,
    ensures
        ({
            let out = ph_stale_out(seq![
                CollV { set: SpanSet::Span(span), trace_id: t, parent_id: p },
                CollV { set: SpanSet::Span(ev), trace_id: t, parent_id: span.id }], a);
            out.len() == 1 && out[0].events.len() == 1
        }),
{
}
