// C19 (Datadog): the transmitted trace id is the low 64 bits of the 128-bit id; times survive the
// signed representation bit for bit.
pub proof fn thm_c19_datadog_ids_and_times(t: u128, x: u64)
    ensures
        (t as u64) as u128 == t & 0xffff_ffff_ffff_ffffu128,
        ((x as i64) as u64) == x,
{
    assert((t as u64) as u128 == t & 0xffff_ffff_ffff_ffffu128) by (bit_vector);
    assert(((x as i64) as u64) == x) by (bit_vector);
}
