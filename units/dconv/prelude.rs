// ---------------------------------------------------------------------------
// TRUSTED (dconv): opaque types and string / map conversions.
// ---------------------------------------------------------------------------
#[verifier::external_body]
#[derive(Clone, Copy)]
pub struct SocketAddr { _p: u8 }

// the characters of a Cow<'static, str>
pub uninterp spec fn cow_str(c: Cow<'static, str>) -> Seq<char>;

// R4m: PROPS.iter().map(|(k, v)| (k.as_ref(), v.as_ref())).collect::<HashMap<&str, &str>>():
// every key of the properties is a key of the map; a key's value is the value of its LAST
// occurrence (what collecting pairs into a HashMap does) -- the "key-value map" caveat of C19.
pub open spec fn last_value(props: Seq<(Cow<'static, str>, Cow<'static, str>)>, key: Seq<char>) -> Option<Seq<char>>
    decreases props.len(),
{
    if props.len() == 0 { None }
    else if cow_str(props.last().0) == key { Some(cow_str(props.last().1)) }
    else { last_value(props.drop_last(), key) }
}

pub uninterp spec fn meta_lookup<'a>(m: HashMap<&'a str, &'a str>, key: Seq<char>) -> Option<Seq<char>>;

#[verifier::external_body]
pub fn props_to_meta<'a>(props: &'a Vec<(Cow<'static, str>, Cow<'static, str>)>) -> (r: HashMap<&'a str, &'a str>)
    ensures forall|key: Seq<char>| #[trigger] meta_lookup(r, key) == last_value(props@, key),
{ props.iter().map(|(k, v)| (k.as_ref(), v.as_ref())).collect() }

// R4d: &COW as &str (deref coercion): the same characters
#[verifier::external_body]
pub fn cow_as_str<'a>(c: &'a Cow<'static, str>) -> (r: &'a str)
    ensures r@ == cow_str(*c),
{ c }

// ---------------------------------------------------------------------------
// Oracle from C19 (Datadog): ids unchanged (low 64 bits of the trace id), ns times, name, the
// reporter's service / type / resource, meta = the properties as a key-value map (None iff there
// are no properties), error code 0.
// ---------------------------------------------------------------------------
pub open spec fn dd_ok(d: DatadogSpan<'_>, s: SpanRecord, rep: DatadogReporter) -> bool {
    &&& d.name@ == cow_str(s.name)
    &&& d.service@ == rep.service_name@
    &&& d.trace_type@ == rep.trace_type@
    &&& d.resource@ == rep.resource@
    &&& d.start == s.begin_time_unix_ns as i64
    &&& d.duration == s.duration_ns as i64
    &&& d.error_code == 0
    &&& d.span_id == s.span_id.0
    &&& d.trace_id == s.trace_id.0 as u64
    &&& d.parent_id == s.parent_id.0
    &&& (d.meta is None <==> s.properties@.len() == 0)
    &&& d.meta is Some ==> forall|key: Seq<char>| #[trigger] meta_lookup(d.meta->Some_0, key) == last_value(s.properties@, key)
}
