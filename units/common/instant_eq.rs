// fastant::Instant is a newtype over the tick count: equality is equality of ticks
impl PartialEq for Instant {
    #[verifier::external_body]
    fn eq(&self, other: &Instant) -> (r: bool)
        ensures r == (self.ticks() == other.ticks()),
    { unimplemented!() }
}
