// derived impls of the extracted id types (the derive expansion is Rust's; its meaning is assumed)
pub assume_specification [<SpanId as Default>::default] () -> (r: SpanId) ensures r == SpanId(0);
pub assume_specification [<SpanId as PartialEq>::eq] (a: &SpanId, b: &SpanId) -> (r: bool) ensures r == (*a == *b);
pub assume_specification [<RawKind as PartialEq>::eq] (a: &RawKind, b: &RawKind) -> (r: bool) ensures r == (*a == *b);

// SpanId::next_id(): per-thread random prefix + counter.  ASSUMED here: the id is non-zero.
// (That assumption is examined separately on the real next_id, see C02.)
impl SpanId {
    #[verifier::external_body]
    pub fn next_id() -> (r: SpanId)
        ensures r.0 != 0,
    { unimplemented!() }
}

// SpanId derives Hash + Eq over its u64: a deterministic hash consistent with equality (vstd needs
// this stated to give HashMap<SpanId, _> its map semantics).  TRUSTED.
pub axiom fn axiom_spanid_key_model()
    ensures vstd::std_specs::hash::obeys_key_model::<SpanId>();
