// ---------------------------------------------------------------------------
// TRUSTED core prelude shared by the units: foreign types and std wrappers.
// ---------------------------------------------------------------------------
use std::borrow::Cow;

// fastant::Instant -- a TSC reading.  `ticks()` is its ghost value.
#[verifier::external_body]
#[derive(Clone, Copy, Debug)]
pub struct Instant { _t: u64 }

impl Instant {
    pub uninterp spec fn ticks(&self) -> nat;
    pub open spec fn is_zero(&self) -> bool { self.ticks() == 0 }
    // is_now(i): i was returned by an Instant::now() call
    pub uninterp spec fn is_now(&self) -> bool;

    pub exec const ZERO: Instant
        ensures Self::ZERO.ticks() == 0,
    { instant_zero() }

    // Instant::now() never returns ZERO (fastant adds the TSC offset; a zero reading is not
    // distinguishable from "not finished" by fastrace itself) -- ASSUMED.
    #[verifier::external_body]
    pub fn now() -> (r: Instant)
        ensures r.ticks() > 0, r.is_now(),
    { unimplemented!() }
}

#[verifier::external_body]
pub const fn instant_zero() -> (r: Instant)
    ensures r.ticks() == 0,
{ Instant { _t: 0 } }


#[verifier::external_body]
pub fn instant_eq(a: &Instant, b: &Instant) -> (r: bool)
    ensures r == (a.ticks() == b.ticks()),
{ unimplemented!() }


// `x.into()` for the Into<Cow<'static, str>> arguments of the API: an opaque conversion.
pub uninterp spec fn cow_of<N>(n: N) -> Cow<'static, str>;

#[verifier::external_body]
pub fn into_cow<N: Into<Cow<'static, str>>>(n: N) -> (r: Cow<'static, str>)
    ensures r == cow_of(n),
{ n.into() }

// Properties = Vec<(Cow, Cow)>.  conv_props(I) is the sequence of converted pairs an
// IntoIterator<Item=(K,V)> yields, in iteration order (opaque).
pub uninterp spec fn conv_props<I>(items: I) -> Seq<(Cow<'static, str>, Cow<'static, str>)>;

// R3: X.get_or_insert_with(Properties::default).extend(P.into_iter().map(|(k, v)| (k.into(), v.into())))
#[verifier::external_body]
pub fn props_extend<K, V, I>(p: &mut Option<Vec<(Cow<'static, str>, Cow<'static, str>)>>, items: I)
    where K: Into<Cow<'static, str>>, V: Into<Cow<'static, str>>, I: IntoIterator<Item = (K, V)>
    ensures
        (*final(p)) is Some,
        (*final(p))->Some_0@ == opt_props(*old(p)) + conv_props(items),
{
    p.get_or_insert_with(Vec::new).extend(items.into_iter().map(|(k, v)| (k.into(), v.into())))
}

pub open spec fn opt_props(p: Option<Vec<(Cow<'static, str>, Cow<'static, str>)>>) -> Seq<(Cow<'static, str>, Cow<'static, str>)> {
    match p { Some(v) => v@, None => Seq::empty() }
}

// R12 (verified, not trusted): `v.iter()` with the iterator/vector correspondence stated with
// usable triggers; vstd's own postcondition has the same content.
pub fn iter_of<'a, T>(v: &'a Vec<T>) -> (it: core::slice::Iter<'a, T>)
    ensures it.remaining().len() == v@.len(),
        forall|i: int| #![trigger it.remaining()[i]] #![trigger v@[i]] 0 <= i < v@.len() ==> *it.remaining()[i] == v@[i],
{
    v.iter()
}

pub assume_specification<T, P: FnOnce(&T) -> bool> [Option::<T>::filter] (o: Option<T>, p: P) -> (r: Option<T>)
    requires o is Some ==> p.requires((&o->Some_0,)),
    ensures
        o is None ==> r is None,
        o is Some ==> exists|keep: bool| #[trigger] p.ensures((&o->Some_0,), keep) && (keep ==> r == o) && (!keep ==> r is None);

// R4c: Cow<'static, str>::clone() yields an equal string value (vstd only gives the uninterpreted
// `cloned` relation for it).
#[verifier::external_body]
pub fn cow_clone(c: &Cow<'static, str>) -> (r: Cow<'static, str>)
    ensures r == *c,
{ c.clone() }
