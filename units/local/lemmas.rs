// ---------------------------------------------------------------------------
// Composition lemmas: the property statements as theorems over the contracts.
// Each is proved by Verus from the *_post predicates alone, so they hold for
// any implementation that satisfies the contracts above -- for all nesting
// depths and all operation sequences (the induction over a well-nested
// sequence is: refl + trans + the three step lemmas).
// ---------------------------------------------------------------------------

// `b` extends `a` without disturbing what `a` recorded and with the same innermost open span:
// this is what any *balanced* (well-nested, completed) sequence of operations does to a queue.
pub open spec fn sq_balanced(a: SpanQueue, b: SpanQueue) -> bool {
    &&& b.next_parent_id == a.next_parent_id
    &&& b.capacity == a.capacity
    &&& b.q().len() >= a.q().len()
    &&& forall|i: int| 0 <= i < a.q().len() ==>
            (#[trigger] b.q()[i]).id == a.q()[i].id && b.q()[i].parent_id == a.q()[i].parent_id
                && b.q()[i].raw_kind == a.q()[i].raw_kind && b.q()[i].name == a.q()[i].name
                && b.q()[i].begin_instant == a.q()[i].begin_instant
}

pub proof fn lemma_balanced_refl(a: SpanQueue)
    ensures sq_balanced(a, a),
{}

pub proof fn lemma_balanced_trans(a: SpanQueue, b: SpanQueue, c: SpanQueue)
    requires sq_balanced(a, b), sq_balanced(b, c),
    ensures sq_balanced(a, c),
{
    assert forall|i: int| 0 <= i < a.q().len() implies
        (#[trigger] c.q()[i]).id == a.q()[i].id && c.q()[i].parent_id == a.q()[i].parent_id
            && c.q()[i].raw_kind == a.q()[i].raw_kind && c.q()[i].name == a.q()[i].name
            && c.q()[i].begin_instant == a.q()[i].begin_instant by {
        assert(b.q()[i].id == a.q()[i].id);
    }
}

// C06/C10: events and properties attach under the innermost open span and leave the context alone
pub proof fn lemma_add_event_balanced(o: SpanQueue, n: SpanQueue, e: Event)
    requires sq_add_event_post(o, n, e),
    ensures sq_balanced(o, n),
{
    if !o.full() {
        assert forall|i: int| 0 <= i < o.q().len() implies (#[trigger] n.q()[i]) == o.q()[i] by {
            assert(n.q().drop_last()[i] == o.q()[i]);
        }
    }
}

pub proof fn lemma_add_properties_balanced<I>(o: SpanQueue, n: SpanQueue, items: I)
    requires sq_add_properties_post(o, n, items),
    ensures sq_balanced(o, n),
{
    if !o.full() {
        assert forall|i: int| 0 <= i < o.q().len() implies (#[trigger] n.q()[i]) == o.q()[i] by {
            assert(n.q().drop_last()[i] == o.q()[i]);
        }
    }
}

pub proof fn lemma_with_properties_balanced<I>(o: SpanQueue, n: SpanQueue, h: SpanHandle, items: I)
    requires sq_with_properties_post(o, n, h, items), h.index < o.q().len(),
    ensures sq_balanced(o, n),
{}

// C02/C10 (local spans): entering a span, doing anything balanced inside it, and finishing it
//  (a) satisfies the LIFO precondition of finish_span by itself,
//  (b) leaves the queue balanced: the innermost open span is again what it was before,
//  (c) the new span's parent is the span that was innermost open when it was entered (or the
//      scope's parent, encoded as 0), and everything recorded inside it that was recorded at
//      top level has the new span as parent.
pub proof fn lemma_enter_exit_balanced<N>(o: SpanQueue, a: SpanQueue, b: SpanQueue, c: SpanQueue, name: N, h: SpanHandle)
    requires
        o.wf(),
        sq_start_span_post(o, a, name, Some(h)),
        sq_balanced(a, b),
        sq_finish_span_post(b, c, h),
    ensures
        sq_finish_pre(b, h),
        sq_balanced(o, c),
        a.q()[h.index as int].parent_id == or_zero(o.next_parent_id),
        c.q()[h.index as int].parent_id == or_zero(o.next_parent_id),
        c.q()[h.index as int].id == a.q()[h.index as int].id,
{
    assert(a.q().last() == a.q()[h.index as int]);
    assert(b.q()[h.index as int].id == a.q()[h.index as int].id);
    assert forall|i: int| 0 <= i < o.q().len() implies
        (#[trigger] c.q()[i]).id == o.q()[i].id && c.q()[i].parent_id == o.q()[i].parent_id
            && c.q()[i].raw_kind == o.q()[i].raw_kind && c.q()[i].name == o.q()[i].name
            && c.q()[i].begin_instant == o.q()[i].begin_instant by {
        assert(a.q().drop_last()[i] == o.q()[i]);
        assert(b.q()[i].id == a.q()[i].id);
        assert(c.q()[i] == b.q()[i]);
    }
}

// C09: a span skipped at capacity changes nothing at all, so whatever is recorded keeps its parent
pub proof fn lemma_skipped_span_is_invisible<N>(o: SpanQueue, n: SpanQueue, name: N, r: Option<SpanHandle>)
    requires sq_start_span_post(o, n, name, r), o.full(),
    ensures r is None, n == o,
{}

// C05/C16: a scope whose token has no sampled item records nothing, whatever is called on it
pub proof fn lemma_unsampled_line_is_inert<N>(o: SpanLine, n: SpanLine, name: N, r: Option<LocalSpanHandle>, e: Event)
    requires !o.is_sampled,
    ensures
        sl_start_span_post(o, n, name, r) ==> n == o && r is None,
        sl_add_event_post(o, n, e) ==> n == o,
{}

// C10 (scopes): register a scope, do anything that only touches the innermost scope, unregister it:
// the stack of enclosing scopes is exactly what it was.
pub open spec fn st_upper_only(a: LocalSpanStack, b: LocalSpanStack, base: int) -> bool {
    &&& b.capacity == a.capacity
    &&& b.lines().len() == a.lines().len()
    &&& forall|i: int| 0 <= i < base ==> #[trigger] b.lines()[i] == a.lines()[i]
}

pub proof fn lemma_only_top_is_upper_only(a: LocalSpanStack, b: LocalSpanStack)
    requires b.only_top_changed(a),
    ensures st_upper_only(a, b, a.lines().len() - 1),
{}

pub proof fn lemma_scope_restores(o: LocalSpanStack, a: LocalSpanStack, b: LocalSpanStack, c: LocalSpanStack, h: SpanLineHandle,
        r: Option<(RawSpans, Option<CollectToken>)>)
    requires
        // register_span_line succeeded: o -> a
        a.lines().len() == o.lines().len() + 1,
        a.lines().drop_last() =~= o.lines(),
        a.capacity == o.capacity,
        // anything in between that leaves the enclosing scopes alone (nested scopes that were
        // themselves restored included): a -> b
        st_upper_only(a, b, o.lines().len() as int),
        // unregister_and_collect: b -> c
        c.lines() =~= b.lines().drop_last(),
        c.capacity == b.capacity,
    ensures
        c.lines() =~= o.lines(),
        c.capacity == o.capacity,
{
    assert forall|i: int| 0 <= i < o.lines().len() implies c.lines()[i] == o.lines()[i] by {
        assert(b.lines()[i] == a.lines()[i]);
        assert(a.lines().drop_last()[i] == o.lines()[i]);
    }
}

// C02/C11: while a local span is open the token handed to children names it as parent; with none
// open it names the scope's own parent.  (Direct reading of sl_current_token_post.)
pub proof fn lemma_token_parent(l: SpanLine, r: Option<Vec<CollectTokenItem>>, i: int)
    requires sl_current_token_post(l, r), l.collect_token is Some, 0 <= i < l.collect_token->Some_0@.len(),
    ensures
        r is Some,
        r->Some_0@[i].trace_id == l.collect_token->Some_0@[i].trace_id,
        r->Some_0@[i].collect_id == l.collect_token->Some_0@[i].collect_id,
        r->Some_0@[i].is_sampled == l.collect_token->Some_0@[i].is_sampled,
        l.span_queue.next_parent_id is Some ==> r->Some_0@[i].parent_id == l.span_queue.next_parent_id->Some_0,
        l.span_queue.next_parent_id is None ==> r->Some_0@[i].parent_id == l.collect_token->Some_0@[i].parent_id,
{}

// ---------------------------------------------------------------------------
// C06, "attached to a span ... later through the span handle": a property added to a local span
// that is still open is recorded whatever scope happens to be innermost at that moment.  NOT
// PROVABLE, and rightly so: LocalSpanStack::with_properties only looks at the innermost scope; if a
// nested scope (LocalCollector::start, set_local_parent, the per-poll scope of in_span) is open, the
// handle's epoch does not match and the proved postcondition `inert_when_not_recording` says the
// stack is unchanged -- the property is dropped, although guards are released in perfect LIFO order
// (findings/hunt/E/outer_local_span_property_in_nested_scope.rs; with debug assertions the call
// trips debug_assert_eq!(span_line_epoch) and aborts in the destructor).  Known finding D15.
// ---------------------------------------------------------------------------
pub open spec fn stack_with_properties_post(o: LocalSpanStack, n: LocalSpanStack, h: LocalSpanHandle) -> bool {
    // the contract proved for LocalSpanStack::with_properties (clause inert_when_not_recording)
    !(o.lines().last().is_sampled && o.lines().last().epoch == h.span_line_epoch) ==> n.unchanged(o)
}

pub proof fn thm_c06_property_added_to_an_open_local_span_is_recorded_under_a_nested_scope(o: LocalSpanStack, n: LocalSpanStack, h: LocalSpanHandle, i: int)
    requires
        o.lines().len() >= 2, 0 <= i < o.lines().len() - 1,
        o.lines()[i].epoch == h.span_line_epoch, o.lines()[i].is_sampled,          // the span's own scope, not the innermost one
        o.lines().last().epoch != h.span_line_epoch,
        stack_with_properties_post(o, n, h),
    ensures
        n.lines().len() == o.lines().len() && n.lines()[i] != o.lines()[i],         // something was recorded in the span's scope
{
}
