// ---------------------------------------------------------------------------
// Contract vocabulary for the thread-local recording structures.  Plain
// definitions (nothing trusted): each `*_post` predicate is the full-state
// postcondition of one operation, taken from the property statements
// (C02/C05/C06/C09/C10/C16), and is used both on the operation itself and on
// the wrappers above it, so that a change in a callee must break the callee's
// own obligation.
// ---------------------------------------------------------------------------
pub open spec fn nz(id: SpanId) -> Option<SpanId> {
    if id == SpanId(0) { None } else { Some(id) }
}

pub open spec fn or_zero(o: Option<SpanId>) -> SpanId {
    match o { Some(id) => id, None => SpanId(0) }
}

impl SpanQueue {
    pub open spec fn q(&self) -> Seq<RawSpan> { self.span_queue@ }

    // representation invariant
    pub open spec fn wf(&self) -> bool {
        &&& self.q().len() <= self.capacity
        &&& self.next_parent_id != Some(SpanId(0))
    }

    pub open spec fn full(&self) -> bool { self.q().len() >= self.capacity }
}

// a record appended by start_span / add_event / add_properties: everything before it is untouched
pub open spec fn sq_appended(o: SpanQueue, n: SpanQueue) -> bool {
    &&& n.q().len() == o.q().len() + 1
    &&& n.q().drop_last() =~= o.q()
    &&& n.capacity == o.capacity
    &&& n.q().last().id.0 != 0
    &&& n.q().last().parent_id == or_zero(o.next_parent_id)
}

pub open spec fn sq_start_span_post<N>(o: SpanQueue, n: SpanQueue, name: N, r: Option<SpanHandle>) -> bool {
    if o.full() {
        r is None && n == o
    } else {
        &&& r is Some
        &&& r->Some_0.index == o.q().len()
        &&& sq_appended(o, n)
        &&& n.q().last().raw_kind == RawKind::Span
        &&& n.q().last().name == cow_of(name)
        &&& n.q().last().properties is None
        &&& n.q().last().begin_instant.ticks() > 0
        &&& n.q().last().end_instant.ticks() == 0
        &&& n.next_parent_id == Some(n.q().last().id)
    }
}

// LIFO discipline (the only precondition of the API, C07): the span being finished is the
// innermost open one.
pub open spec fn sq_finish_pre(o: SpanQueue, h: SpanHandle) -> bool {
    &&& h.index < o.q().len()
    &&& o.next_parent_id == Some(o.q()[h.index as int].id)
}

pub open spec fn sq_finish_span_post(o: SpanQueue, n: SpanQueue, h: SpanHandle) -> bool {
    &&& n.q().len() == o.q().len()
    &&& n.capacity == o.capacity
    &&& forall|i: int| 0 <= i < o.q().len() && i != h.index ==> n.q()[i] == o.q()[i]
    &&& n.q()[h.index as int] == (RawSpan { end_instant: n.q()[h.index as int].end_instant, ..o.q()[h.index as int] })
    &&& n.q()[h.index as int].end_instant.ticks() > 0
    &&& n.next_parent_id == nz(o.q()[h.index as int].parent_id)
}

pub open spec fn sq_add_event_post(o: SpanQueue, n: SpanQueue, e: Event) -> bool {
    if o.full() {
        n == o
    } else {
        &&& sq_appended(o, n)
        &&& n.q().last().raw_kind == RawKind::Event
        &&& n.q().last().name == cow_of(e.name)
        &&& n.q().last().properties == e.properties
        &&& n.q().last().begin_instant.ticks() > 0
        &&& n.next_parent_id == o.next_parent_id
    }
}

pub open spec fn sq_add_properties_post<I>(o: SpanQueue, n: SpanQueue, items: I) -> bool {
    if o.full() {
        n == o
    } else {
        &&& sq_appended(o, n)
        &&& n.q().last().raw_kind == RawKind::Properties
        &&& n.q().last().properties is Some
        &&& n.q().last().properties->Some_0@ == conv_props(items)
        &&& n.next_parent_id == o.next_parent_id
    }
}

pub open spec fn sq_with_properties_post<I>(o: SpanQueue, n: SpanQueue, h: SpanHandle, items: I) -> bool {
    &&& n.q().len() == o.q().len()
    &&& n.capacity == o.capacity
    &&& n.next_parent_id == o.next_parent_id
    &&& forall|i: int| 0 <= i < o.q().len() && i != h.index ==> n.q()[i] == o.q()[i]
    &&& n.q()[h.index as int] == (RawSpan { properties: n.q()[h.index as int].properties, ..o.q()[h.index as int] })
    &&& n.q()[h.index as int].properties is Some
    &&& n.q()[h.index as int].properties->Some_0@ == opt_props(o.q()[h.index as int].properties) + conv_props(items)
}

// ------------------------------------------------------------------ SpanLine
pub open spec fn token_any_sampled(t: Option<Vec<CollectTokenItem>>) -> bool {
    match t {
        Some(v) => exists|i: int| 0 <= i < v@.len() && #[trigger] v@[i].is_sampled,
        None => true,
    }
}

impl SpanLine {
    pub open spec fn wf(&self) -> bool { self.span_queue.wf() }

    // everything except the queue
    pub open spec fn same_frame(&self, o: SpanLine) -> bool {
        &&& self.epoch == o.epoch
        &&& self.collect_token == o.collect_token
        &&& self.is_sampled == o.is_sampled
    }
}

pub open spec fn sl_start_span_post<N>(o: SpanLine, n: SpanLine, name: N, r: Option<LocalSpanHandle>) -> bool {
    if !o.is_sampled {
        r is None && n == o
    } else {
        &&& n.same_frame(o)
        &&& sq_start_span_post(o.span_queue, n.span_queue, name, match r { Some(h) => Some(h.span_handle), None => None })
        &&& (r is Some <==> !o.span_queue.full())
        &&& r is Some ==> r->Some_0.span_line_epoch == o.epoch
    }
}

pub open spec fn sl_finish_pre(o: SpanLine, h: LocalSpanHandle) -> bool {
    o.epoch == h.span_line_epoch ==> sq_finish_pre(o.span_queue, h.span_handle)
}

pub open spec fn sl_finish_span_post(o: SpanLine, n: SpanLine, h: LocalSpanHandle) -> bool {
    if o.epoch == h.span_line_epoch {
        n.same_frame(o) && sq_finish_span_post(o.span_queue, n.span_queue, h.span_handle)
    } else {
        n == o
    }
}

pub open spec fn sl_add_event_post(o: SpanLine, n: SpanLine, e: Event) -> bool {
    if !o.is_sampled { n == o } else { n.same_frame(o) && sq_add_event_post(o.span_queue, n.span_queue, e) }
}

pub open spec fn sl_add_properties_post<I>(o: SpanLine, n: SpanLine, items: I) -> bool {
    n.same_frame(o) && sq_add_properties_post(o.span_queue, n.span_queue, items)
}

pub open spec fn sl_with_properties_post<I>(o: SpanLine, n: SpanLine, h: LocalSpanHandle, items: I) -> bool {
    n.same_frame(o) && sq_with_properties_post(o.span_queue, n.span_queue, h.span_handle, items)
}

// the token a child created now would carry: every item keeps its trace/collect id and sampling
// decision; its parent is the innermost open local span, or the scope's own parent if none is open
pub open spec fn sl_token_item(l: SpanLine, item: CollectTokenItem) -> CollectTokenItem {
    CollectTokenItem {
        trace_id: item.trace_id,
        parent_id: match l.span_queue.next_parent_id { Some(id) => id, None => item.parent_id },
        collect_id: item.collect_id,
        is_root: item.is_root,
        is_sampled: item.is_sampled,
    }
}

pub open spec fn sl_current_token_post(l: SpanLine, r: Option<Vec<CollectTokenItem>>) -> bool {
    match l.collect_token {
        None => r is None,
        Some(t) => {
            &&& r is Some
            &&& r->Some_0@.len() == t@.len()
            &&& forall|i: int| 0 <= i < t@.len() ==> #[trigger] r->Some_0@[i] == sl_token_item(l, t@[i])
        }
    }
}

// ------------------------------------------------------------ LocalSpanStack
impl LocalSpanStack {
    pub open spec fn lines(&self) -> Seq<SpanLine> { self.span_lines@ }

    pub open spec fn same_frame(&self, o: LocalSpanStack) -> bool {
        self.capacity == o.capacity && self.next_span_line_epoch == o.next_span_line_epoch
    }

    pub open spec fn wf(&self) -> bool {
        forall|i: int| 0 <= i < self.lines().len() ==> #[trigger] self.lines()[i].wf()
    }

    pub open spec fn unchanged(&self, o: LocalSpanStack) -> bool {
        self.same_frame(o) && self.lines() =~= o.lines()
    }

    // only the innermost scope may change: all enclosing scopes are untouched
    pub open spec fn only_top_changed(&self, o: LocalSpanStack) -> bool {
        &&& self.same_frame(o)
        &&& self.lines().len() == o.lines().len()
        &&& self.lines().len() > 0
        &&& forall|i: int| 0 <= i < self.lines().len() - 1 ==> #[trigger] self.lines()[i] == o.lines()[i]
    }
}

pub open spec fn fresh_line(l: SpanLine, epoch: usize, token: Option<Vec<CollectTokenItem>>) -> bool {
    &&& l.epoch == epoch
    &&& l.collect_token == token
    &&& l.is_sampled == token_any_sampled(token)
    &&& l.span_queue.q() =~= Seq::<RawSpan>::empty()
    &&& l.span_queue.capacity == DEFAULT_SPAN_QUEUE_SIZE
    &&& l.span_queue.next_parent_id is None
}

// ------------------------------------------------------------ SpanContext::current_local_parent
// R19: the thread-local handle.  `LOCAL_SPAN_STACK.try_with(Rc::clone).ok()?` yields the thread's
// stack cell (or None during TLS teardown) and `.borrow_mut()` the stack inside it; here the cell
// is an opaque value holding an arbitrary well-formed stack and borrow_mut() hands that stack out
// by value (the function only reads it).  TRUSTED: Rc/RefCell/thread_local are not modelled.
#[verifier::external_body]
pub struct TlsStackCell { _p: core::marker::PhantomData<LocalSpanStack> }

impl TlsStackCell {
    pub uninterp spec fn stack(&self) -> LocalSpanStack;

    #[verifier::external_body]
    pub fn borrow_mut(&self) -> (r: LocalSpanStack)
        ensures r == self.stack(),
    { unimplemented!() }
}

pub uninterp spec fn tls_stack_cell() -> Option<TlsStackCell>;

#[verifier::external_body]
pub fn verif_tls_stack() -> (r: Option<TlsStackCell>)
    ensures r == tls_stack_cell(), r is Some ==> r->Some_0.stack().wf(),
{ unimplemented!() }

// C11: the context current_local_parent() must return for a given thread-local stack
pub open spec fn ctx_of_stack(st: LocalSpanStack) -> Option<SpanContext> {
    if st.lines().len() == 0 { None } else {
        let l = st.lines().last();
        match l.collect_token {
            None => None,
            Some(t) => if t@.len() == 0 { None } else {
                Some(SpanContext {
                    trace_id: t@[0].trace_id,
                    span_id: match l.span_queue.next_parent_id { Some(id) => id, None => t@[0].parent_id },
                    sampled: t@[0].is_sampled,
                })
            },
        }
    }
}
