// ---------------------------------------------------------------------------
// TRUSTED: contract for rtrb 0.3 (SPSC ring).  Nothing here is verified.
//
// The contract is interference-aware: it never exposes a fact that the *other*
// side of the ring could invalidate between two calls.
//   Producer side: whether a push succeeds is unconstrained (the consumer may
//     pop at any time), so a proof about Sender holds for every interleaving of
//     consumer pops.  `pushed()` is the ghost history of accepted pushes; rtrb
//     is trusted to deliver exactly that sequence, in order, to the consumer.
//   Consumer side: "the ring is empty" is only a stable fact when the producer
//     was already known to be gone *before* the failed pop.  `closed()` =
//     producer has been dropped at or before this state (monotone);
//     `drained()` = closed and empty, hence empty forever.
// ---------------------------------------------------------------------------
#[verifier::external_body]
#[verifier::reject_recursive_types(T)]
pub struct Producer<T> { _p: core::marker::PhantomData<T> }

#[verifier::external_body]
#[verifier::reject_recursive_types(T)]
pub struct Consumer<T> { _p: core::marker::PhantomData<T> }

#[verifier::external_body]
#[verifier::reject_recursive_types(T)]
pub struct RingBuffer<T> { _p: core::marker::PhantomData<T> }

pub enum PushError<T> { Full(T) }
pub enum PopError { Empty }

impl<T> Producer<T> {
    pub uninterp spec fn pushed(&self) -> Seq<T>;

    #[verifier::external_body]
    pub fn push(&mut self, value: T) -> (r: Result<(), PushError<T>>)
        ensures
            r is Ok ==> final(self).pushed() == old(self).pushed().push(value),
            r is Err ==> final(self).pushed() == old(self).pushed() && r == Err::<(), PushError<T>>(PushError::Full(value)),
    { unimplemented!() }
}

impl<T> Consumer<T> {
    pub uninterp spec fn popped(&self) -> Seq<T>;
    pub uninterp spec fn closed(&self) -> bool;
    pub uninterp spec fn drained(&self) -> bool;

    #[verifier::external_body]
    pub fn pop(&mut self) -> (r: Result<T, PopError>)
        ensures
            old(self).closed() ==> final(self).closed(),
            old(self).drained() ==> final(self).drained(),
            r is Ok ==> final(self).popped() == old(self).popped().push(r->Ok_0),
            r is Err ==> final(self).popped() == old(self).popped(),
            r is Err && old(self).closed() ==> final(self).drained(),
    { unimplemented!() }

    // closed(): the producer is gone (a fact about the world at the time of the call; it can become
    // true between two calls, never false again -- see pop).  is_abandoned reads exactly that fact.
    #[verifier::external_body]
    pub fn is_abandoned(&self) -> (b: bool)
        ensures b == self.closed(),
    { unimplemented!() }

    // how full the ring looks is unstable under interference: nothing is promised
    #[verifier::external_body]
    pub fn is_empty(&self) -> (b: bool)
    { unimplemented!() }

    #[verifier::external_body]
    pub fn slots(&self) -> (n: usize)
    { unimplemented!() }
}

impl<T> RingBuffer<T> {
    #[verifier::external_body]
    pub fn new(capacity: usize) -> (r: (Producer<T>, Consumer<T>))
        ensures r.0.pushed() == Seq::<T>::empty(), r.1.popped() == Seq::<T>::empty(),
    { unimplemented!() }
}

// ---------------------------------------------------------------------------
// Abstract view used by the contracts (not trusted: plain definitions).
// total(s): everything this Sender has ever accepted that was not omitted, in
// the order the consumer will see it = what is already in the ring's history,
// followed by the overflow list in replay order (front first).
// ---------------------------------------------------------------------------
impl<T> Sender<T> {
    pub open spec fn total(&self) -> Seq<T> {
        self.tx.pushed() + self.pending_messages@
    }
}
