// C04/C09: a thread's finish/cancel signals (force path) followed by anything
// else are seen by the consumer in program order: two force_sends compose.
pub proof fn lemma_force_order<T>(t0: Seq<T>, a: T, b: T)
    ensures t0.push(a).push(b) == t0 + seq![a, b],
{
    assert(t0.push(a).push(b) =~= t0 + seq![a, b]);
}

// ---------------------------------------------------------------------------
// C04, "including when the calling thread's command queue is full": when force_send returns, the
// forced command is in the ring, where the collector can see it.  NOT PROVABLE, and rightly so:
// force_send's (proved) postcondition is total' == total.push(v) with total = pushed ++ pending --
// on a full ring the command stays in the sender's thread-local overflow list, and nothing moves it
// into the ring until the SAME thread sends again.  A cancel() parked this way is overtaken by the
// CommitCollect that another thread sends when it drops the root, and the cancelled trace is
// delivered (findings/D13 reproduces it on the real code: 10353 records of a cancelled trace).
// Kept as an obligation so that the check keeps reporting it; listed in known_findings.json, where
// it is printed as KNOWN-FINDING instead of VIOLATION.
// ---------------------------------------------------------------------------
pub proof fn thm_c04_forced_command_is_in_the_ring_when_force_send_returns<T>(pushed0: Seq<T>, pending0: Seq<T>, pushed1: Seq<T>, pending1: Seq<T>, v: T)
    requires
        // what Sender::force_send is proved to establish
        pushed1 + pending1 =~= (pushed0 + pending0).push(v),
    ensures
        pending1.len() == 0,
{
}

// what does hold: the command is not lost and keeps its place in the thread's own order
pub proof fn thm_c04_forced_command_keeps_its_place_in_the_threads_order<T>(pushed0: Seq<T>, pending0: Seq<T>, pushed1: Seq<T>, pending1: Seq<T>, v: T)
    requires pushed1 + pending1 =~= (pushed0 + pending0).push(v),
    ensures (pushed1 + pending1).last() == v, (pushed1 + pending1).drop_last() =~= pushed0 + pending0,
{
}

// C09, "finish and cancel signals are neither dropped nor reordered while the thread lives": the same
// statement as thm_c04_forced_command_is_in_the_ring_when_force_send_returns, seen from the overload
// property.  NOT PROVABLE for the same reason: a CommitCollect parked on a full ring is moved on only
// by that thread's next command (or its exit); a living but idle thread withholds it indefinitely --
// no collector cycle and no flush() un-parks it -- so in cancelable mode the whole trace, including
// span sets that were accepted before the queue filled up, is not delivered, and in the default mode
// the trace's collector entry stays (findings/hunt/C/parked_commit_stuck.rs: 0 of 10239 accepted
// child records after three flushes; all of them after one unrelated tracing call on that thread).
// Known finding D13.
pub proof fn thm_c09_finish_signal_is_in_the_ring_when_force_send_returns<T>(pushed0: Seq<T>, pending0: Seq<T>, pushed1: Seq<T>, pending1: Seq<T>, v: T)
    requires pushed1 + pending1 =~= (pushed0 + pending0).push(v),
    ensures pending1.len() == 0,
{
}
