// C04/C09: a thread's finish/cancel signals (force path) followed by anything
// else are seen by the consumer in program order: two force_sends compose.
pub proof fn lemma_force_order<T>(t0: Seq<T>, a: T, b: T)
    ensures t0.push(a).push(b) == t0 + seq![a, b],
{
    assert(t0.push(a).push(b) =~= t0 + seq![a, b]);
}
