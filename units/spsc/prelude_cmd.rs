// ---------------------------------------------------------------------------
// R23: the per-thread command sender of global_collector.rs.
//   thread_local! { static COMMAND_SENDER: UnsafeCell<Sender<CollectCommand>> = .. }
//   COMMAND_SENDER.try_with(|sender| unsafe { (*sender.get()).CALL }).ok();
// becomes an explicit parameter `tls: &mut CmdTls` of the wrapper and
//   if tls.alive { let _r = tls.sender.CALL; }
// TRUSTED / dropped: thread_local (lazy initialisation: bounded(10240) + register_receiver),
// LocalKey::try_with (Err while the thread's storage is being torn down = `alive == false`), the
// UnsafeCell dereference (unsafe; sound because the cell is thread-local and the wrappers are not
// re-entrant).  The command type is opaque: the wrappers are generic in what they transport.
// ---------------------------------------------------------------------------
#[verifier::external_body]
pub struct CollectCommand { _p: () }

pub struct CmdTls {
    pub alive: bool,
    pub sender: Sender<CollectCommand>,
}
