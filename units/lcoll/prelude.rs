// TRUSTED stand-ins for what collect_spans_and_token touches (besides units/common).
#[verifier::external_body]
pub struct LocalSpanStack { _p: u8 }
#[verifier::external_body]
pub struct SpanLineHandle { _p: u8 }

#[verifier::external_type_specification]
#[verifier::external_body]
#[verifier::reject_recursive_types(T)]
pub struct ExRefCell<T: ?Sized>(std::cell::RefCell<T>);

// what the scope held when it was unregistered (contract of LocalSpanStack::unregister_and_collect
// is proved in unit `local`); None if the collector was inert
pub uninterp spec fn scope_content(c: LocalCollector) -> Option<(RawSpans, Option<CollectToken>)>;

// R4: self.inner.take().and_then(|LocalCollectorInner { stack, span_line_handle }| { stack.borrow_mut().unregister_and_collect(span_line_handle) })
#[verifier::external_body]
pub fn lc_take_and_collect(c: &mut LocalCollector) -> (r: Option<(RawSpans, Option<CollectToken>)>)
    ensures r == scope_content(*old(c)),
{ unimplemented!() }

