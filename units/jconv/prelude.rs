// ---------------------------------------------------------------------------
// TRUSTED (jconv): opaque socket types and string conversions.
// ---------------------------------------------------------------------------
#[verifier::external_body]
#[derive(Clone, Copy)]
pub struct SocketAddr { _p: u8 }
#[verifier::external_body]
pub struct UdpSocket { _p: u8 }

// the characters of a Cow<'static, str>
pub uninterp spec fn cow_str(c: Cow<'static, str>) -> Seq<char>;

// R4s: X.to_string() on a Cow<'static, str> (Display of str): the same characters
#[verifier::external_body]
pub fn cow_to_string(c: &Cow<'static, str>) -> (r: String)
    ensures r@ == cow_str(*c),
{ c.to_string() }

// R4c: [(LIT.into(), NAME.clone())].iter().chain(PROPS): the literal key/name pair followed by the
// properties, in order.  The key literal is part of the contract (C19: "log field 0 is
// ("name", event.name)").
#[verifier::external_body]
pub fn name_then_props(key: &'static str, name: &Cow<'static, str>, props: &Vec<(Cow<'static, str>, Cow<'static, str>)>) -> (r: Vec<(Cow<'static, str>, Cow<'static, str>)>)
    requires key@ == "name"@,
    ensures
        r@.len() == props@.len() + 1,
        cow_str(r@[0].0) == "name"@, r@[0].1 == *name,
        forall|i: int| 0 <= i < props@.len() ==> #[trigger] r@[i + 1] == props@[i],
{ unimplemented!() }

// ---------------------------------------------------------------------------
// Views and the oracle (definitions).  From C19: each record is transmitted once, in order, with
// its ids (128-bit trace id split into two 64-bit halves, span / parent ids bit-identical), start
// and duration in microseconds, one tag per property and one log per event, whose first field is
// ("name", event name).
// ---------------------------------------------------------------------------
pub type KV = (Seq<char>, Seq<char>);

pub open spec fn kv_of(p: (Cow<'static, str>, Cow<'static, str>)) -> KV { (cow_str(p.0), cow_str(p.1)) }

pub open spec fn tag_kv(t: Tag) -> Option<KV> {
    match t { Tag::String { key, value } => Some((key@, value@)), _ => None }
}

pub open spec fn tags_ok(tags: Seq<Tag>, props: Seq<(Cow<'static, str>, Cow<'static, str>)>) -> bool {
    tags.len() == props.len() && forall|i: int| 0 <= i < props.len() ==> tag_kv(#[trigger] tags[i]) == Some(kv_of(props[i]))
}

pub open spec fn log_ok(l: Log, e: EventRecord) -> bool {
    &&& l.timestamp == (e.timestamp_unix_ns / 1000) as i64
    &&& l.fields@.len() == e.properties@.len() + 1
    &&& tag_kv(l.fields@[0]) == Some(("name"@, cow_str(e.name)))
    &&& forall|i: int| 0 <= i < e.properties@.len() ==> tag_kv(#[trigger] l.fields@[i + 1]) == Some(kv_of(e.properties@[i]))
}

pub open spec fn span_ok(j: JaegerSpan, s: SpanRecord) -> bool {
    &&& j.trace_id_high == (s.trace_id.0 >> 64) as i64
    &&& j.trace_id_low == s.trace_id.0 as i64
    &&& j.span_id == s.span_id.0 as i64
    &&& j.parent_span_id == s.parent_id.0 as i64
    &&& j.operation_name@ == cow_str(s.name)
    &&& j.references@.len() == 0
    &&& j.flags == 1
    &&& j.start_time == (s.begin_time_unix_ns / 1000) as i64
    &&& j.duration == (s.duration_ns / 1000) as i64
    &&& tags_ok(j.tags@, s.properties@)
    &&& j.logs@.len() == s.events@.len()
    &&& forall|i: int| 0 <= i < s.events@.len() ==> log_ok(#[trigger] j.logs@[i], s.events@[i])
}
