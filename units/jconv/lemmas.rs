// C19 (Jaeger): the two 64-bit halves recombine to the 128-bit trace id, and the 64-bit ids survive
// the signed representation bit for bit (ids with the top bit set included).
pub proof fn thm_c19_ids_are_bit_identical(t: u128, x: u64)
    ensures
        ((((t >> 64) as i64) as u64) as u128) << 64 | (((t as i64) as u64) as u128) == t,
        ((x as i64) as u64) == x,
{
    assert(((((t >> 64) as i64) as u64) as u128) << 64 | (((t as i64) as u64) as u128) == t) by (bit_vector);
    assert(((x as i64) as u64) == x) by (bit_vector);
}
