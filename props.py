"""Which obligations decide which property.

For each property:
  verus: list of (unit, [function paths whose obligations carry the property] | '*')
  kani:  list of harness ids (see kani/harnesses.json)
  assumptions: what the implication obligations => property additionally rests on
"""

RTRB = 'rtrb 0.3 is a linearizable SPSC FIFO: values accepted by Producer::push are returned by Consumer::pop exactly once and in order; is_abandoned()==true implies no further push (units/spsc/prelude.rs)'
LOCK = 'collector cycles are mutually exclusive (handle_commands always runs under GLOBAL_COLLECTOR.lock(); parking_lot trusted)'
TLS = 'COMMAND_SENDER is thread-local: only its owner thread calls Sender::send/force_send. The wrappers send_command / force_send_command are under contract with the thread-local made an explicit parameter (R23): thread_local lazy initialisation, LocalKey::try_with and the UnsafeCell dereference are NOT verified (teardown = the `alive == false` case)'

LOCAL_ALL = '*'
IDS_NONZERO = 'SpanId::next_id() returns a non-zero id (assumed in units/common/ids.rs; examined on the real next_id by the C02 Kani harness)'
NOW = 'fastant::Instant::now() never returns Instant::ZERO (ZERO is the "not finished" marker)'
STD = 'std wrappers in units/common/core.rs (props_extend = get_or_insert_with+extend+map(into), Option::filter, into_cow) behave as their std documentation says'

COLL_ENV = 'environment model of a collector cycle: drain_receivers yields ARBITRARY lists of commands (only: no empty token); no consistent cut across threads is assumed (units/coll/prelude.rs)'
COLL_STD = 'std/derive wrappers of units/coll/prelude.rs: HashMap entry/get_mut/keys wrappers, Vec::drain/extend/tail wrappers, props_to_vec, Cow clone, derived Default of ActiveCollector, SpanId hash/eq key model'
CLOCK = 'fastant: Instant::as_unix_nanos(anchor) is a function of (instant, anchor) (unix_ns); its monotonicity and wall-clock accuracy are NOT verified'
REPORTER = 'the user Reporter is modelled as a log of report() calls (ReporterLog)'

H = 'GlobalCollector::handle_commands'
COLL_DELIVERY = [H, 'drain_one', 'postprocess_span_collection', 'amend_span', 'amend_local_span', 'mount_danglings']

KANI_ENV = 'Kani harnesses run on a scratch copy of the real crate with mechanical edits K1-K6 (vlib/kani.py): single-thread cell for LOCAL_SPAN_STACK, rand::random -> any, command senders replaced by a recording stub; Kani has one thread and no TLS destructors'
API_SPLIT = 'Span::enter_with_parents is verified for 0 and 1 parents (the iterator-adapter chain costs CBMC minutes per parent); multi-parent behaviour is composed from issue_collect_token (element-wise, 2 items) and the submit filter (2 items)'

PROPS = {
    'C01': {
        'verus': [('spsc', ['Sender::send', 'Sender::force_send', 'bounded', 'Receiver::try_recv', 'send_command', 'force_send_command']), ('coll', COLL_DELIVERY)],
        'kani': ['root_lifecycle', 'finish_submits_sampled_items_only', 'local_parent_guard_scope'],
        'assumptions': [RTRB, TLS, LOCK, COLL_ENV, COLL_STD, REPORTER,
                        'NOT decided: "within about one report interval" and liveness of the background thread (time/liveness are outside contract verification); flush() runs one cycle after everything that happened-before it (structural)'],
    },
    'C03': {
        'verus': [('coll', [H, 'drain_one'])],
        'kani': ['future_in_span_final_poll', 'stream_in_span_last_call', 'sink_in_span_close', 'sink_in_span_close_err', 'sink_in_span_close_pending'],
        'assumptions': [LOCK, COLL_ENV, COLL_STD, REPORTER,
                        'NOT decided: the clause "every span that finished before it on any thread" needs a consistent cut across threads, which the sequential drain of receivers does not establish (DESIGN.md D8); proved per batch: what a commit releases is everything buffered so far plus this batch, in one report call, and nothing afterwards'],
    },
    'C06': {
        'verus': [('coll', [H, 'postprocess_span_collection', 'amend_span', 'amend_local_span', 'mount_danglings']),
                  ('local', ['SpanQueue::add_event', 'SpanQueue::add_properties', 'SpanQueue::with_properties', 'SpanLine::add_event', 'SpanLine::add_properties', 'SpanLine::with_properties',
                             'LocalSpanStack::add_event', 'LocalSpanStack::add_properties', 'LocalSpanStack::with_properties', 'RawSpan::begin_with'])],
        'kani': ['add_event_handle', 'add_properties_handle', 'enter_with_parent_matches_model', 'add_event_handle_two_parents', 'add_properties_handle_two_parents'],
        'assumptions': [COLL_ENV, COLL_STD, STD, 'strings are opaque values: "unchanged" means the same Cow value moved or cloned'],
    },
    'C08': {
        'verus': [('coll', [H, 'drain_one']), ('spsc', ['Receiver::try_recv'])],
        'kani': [],
        'assumptions': [RTRB, LOCK, COLL_ENV, COLL_STD],
    },
    'C17': {
        'verus': [('coll', ['amend_local_span', 'mount_danglings', 'LocalSpansInner::to_span_records', 'postprocess_span_collection']),
                  ('lcoll', '*')],
        'kani': ['push_child_spans_direct'],
        'assumptions': [COLL_STD, CLOCK, 'identical "up to the clock anchor": proved per anchor value'],
    },
    'C18': {
        'verus': [('coll', ['amend_span', 'amend_local_span']),
                  ('local', ['RawSpan::begin_with', 'RawSpan::end_with', 'SpanQueue::start_span', 'SpanQueue::finish_span', 'SpanQueue::add_event']),
                  ('lcoll', '*')],
        'kani': ['finish_submits_sampled_items_only'],
        'assumptions': [CLOCK, NOW, KANI_ENV, 'NOT decided: "begin time lies inside the wall-clock window of the run" and interval nesting need a monotone clock (TSC + f64 conversion are trusted)'],
    },
    'C10': {
        'verus': [('local', '*')],
        'kani': ['local_parent_guard_scope', 'no_local_parent_is_inert', 'unsampled_scope_shadows'],
        'assumptions': [IDS_NONZERO, NOW, STD, 'guards are !Send (type level: they hold an Rc) so a scope cannot leave its thread'],
    },
    'C12': {
        'verus': [('ids', '*')],
        'kani': [],
        'assumptions': ['str::split(\'-\') yields the maximal dash-free segments in order and is fused (dash_fields)',
                        'uN::from_str_radix(s, 16) is Ok(v) iff s is an optional + followed by >= 1 hex digits whose value v fits N bits (hexval)',
                        'format!("{:0Wx}", v) is the W-digit lower-case hex text of v and parses back to v; hex digits are not dashes (axioms in units/ids/lemmas.rs)',
                        'a str is determined by its characters (axiom_str_ext)',
                        'Display::fmt: what write! puts into the Formatter is ghost state (`written`); the format literals are checked against the widths the property demands', 'NOT covered: the serde impls of TraceId and SpanId (the same two std calls behind serde\'s Serializer / Deserializer traits, which single-file Verus cannot import)'],
    },
    'C19': {
        'verus': [('jconv', '*'), ('dconv', '*'), ('oconv', '*')],
        'kani': [],
        'assumptions': ['string conversions (Cow<str>::to_string, &Cow as &str) keep the characters (cow_str); collecting (key, value) pairs into a HashMap keeps, per key, the last value (props_to_meta); [("name", event.name)].iter().chain(props) yields that pair followed by the properties (name_then_props; the literal "name" is checked)',
                        'OpenTelemetry: SpanData / SpanEvents are mirrored field by field and the other opentelemetry types are opaque with ghost accessors (units/oconv/prelude.rs); constructors (SpanContext::new, KeyValue::new, Event::new, From<u128>/From<u64> for the id types, UNIX_EPOCH + Duration::from_nanos) are assumed to store what they are given; precondition begin_time_unix_ns + duration_ns <= u64::MAX (the code adds them unchecked)',
                        'NOT decided: serialisation to Thrift compact / msgpack / OTLP and their well-formedness (thrift_codec, rmp_serde, opentelemetry exporters are trusted), HTTP / UDP transport',
                        'exactly-once per batch for Jaeger additionally needs C20 (datagram splitting)'],
    },
    'C20': {
        'verus': [('jaeger', '*')],
        'kani': [],
        'assumptions': ['JaegerReporter::convert + serialize produce, for a slice of records, bytes whose length is a function of that slice only (enc_len); what the bytes contain is C19', 'UdpSocket::send_to sends exactly the buffer it is given as one datagram (OS)', 'ghost log: every send in try_report goes through the logged wrapper (the raw send_to stub has `requires false`)'],
    },
    'C02': {
        'verus': [('local', ['SpanQueue::start_span', 'SpanQueue::finish_span', 'SpanQueue::add_event', 'SpanQueue::add_properties', 'SpanLine::start_span', 'SpanLine::finish_span', 'SpanLine::current_collect_token', 'SpanLine::new',
                             'LocalSpanStack::enter_span', 'LocalSpanStack::exit_span', 'LocalSpanStack::current_collect_token', 'LocalSpanStack::register_span_line', 'LocalSpanStack::unregister_and_collect', 'RawSpan::begin_with']),
                  ('coll', [H, 'postprocess_span_collection', 'amend_span', 'amend_local_span'])],
        'kani': ['root_lifecycle', 'child_token_names_parent', 'issued_token_rewrites_parent_only', 'finish_submits_sampled_items_only', 'enter_with_parent_matches_model', 'child_of_two_trace_parent_is_in_both_traces', 'next_id_formula_and_distinct'],
        'assumptions': [KANI_ENV, API_SPLIT, COLL_ENV, COLL_STD, NOW, 'distinctness of span ids across threads rests on distinct random 32-bit prefixes (probabilistic, not an obligation); within a thread ids are distinct until the 32-bit counter wraps'],
    },
    'C05': {
        'verus': [('local', ['SpanLine::new', 'SpanLine::start_span', 'SpanLine::add_event', 'SpanLine::add_properties', 'SpanLine::with_properties', 'SpanLine::current_collect_token'])],
        'kani': ['root_lifecycle', 'finish_submits_sampled_items_only', 'issued_token_rewrites_parent_only', 'child_token_names_parent', 'push_child_spans_direct', 'add_event_handle', 'add_properties_handle', 'add_event_handle_two_parents', 'add_properties_handle_two_parents', 'unsampled_scope_shadows'],
        'assumptions': [KANI_ENV, API_SPLIT, 'composition: no command carrying an unsampled item ever enters a queue (submit filter), so by the collector oracle no record of an unsampled trace is produced'],
    },
    'C07': {
        'verus': [('local', '*'), ('spsc', ['Sender::send', 'Sender::force_send', 'Receiver::try_recv', 'bounded', 'send_command', 'force_send_command']), ('jaeger', '*')],
        'kani': ['span_of_no_trace', 'noop_span_never_calls_closures', 'no_local_parent_is_inert', 'root_without_reporter_is_noop', 'empty_parent_set', 'root_lifecycle', 'cancel_root', 'local_parent_guard_scope', 'reentrant_property_closure', 'plain_property_closure', 'guard_beyond_scope_limit', 'next_id_formula_and_distinct'],
        'assumptions': [KANI_ENV, 'panic-freedom is proved per function / per state class listed; calls issued from inside property closures: harness reentrant_property_closure (fails: known finding D6) with its control plain_property_closure; NOT covered: deadlock freedom in general, and calls made while thread-local storage is being torn down (Kani has no TLS destructors)',
                        'non-blocking: Sender::send / force_send terminate (Verus decreases) and take no lock'],
    },
    'C11': {
        'verus': [('local', ['SpanLine::current_collect_token', 'LocalSpanStack::current_collect_token', 'SpanContext::current_local_parent'])],
        'kani': ['root_lifecycle', 'finish_submits_sampled_items_only', 'span_of_no_trace', 'empty_parent_set', 'local_parent_guard_scope', 'child_token_names_parent', 'unsampled_scope_shadows'],
        'assumptions': [KANI_ENV, 'round trip through traceparent text: C12'],
    },
    'C16': {
        'verus': [('local', ['SpanLine::add_properties', 'SpanLine::with_properties', 'LocalSpanStack::add_properties', 'LocalSpanStack::with_properties', 'LocalSpanStack::enter_span', 'LocalSpanStack::add_event'])],
        'kani': ['disabled_build_is_inert', 'noop_span_never_calls_closures', 'root_without_reporter_is_noop', 'root_before_reporter_is_noop', 'no_local_parent_is_inert', 'empty_parent_set'],
        'assumptions': [KANI_ENV, '"no thread": set_reporter is the only spawn site besides flush and both are cfg(feature = "enable") (syntactic)'],
    },
    'C13': {
        'verus': [],
        'kani': ['future_in_span_final_poll', 'future_in_span_pending_poll', 'local_parent_guard_scope', 'future_enter_on_poll'],
        'assumptions': [KANI_ENV, 'per-call contract: each poll is verified for an arbitrary adapter state (span present), which is what the induction over poll sequences needs; thread migration: nothing thread-specific is stored in the adapter (type level)',
                        'enter_on_poll: EnterOnPoll::poll, LocalSpan::enter_with_local_parent / enter_with_stack and the guard\'s Drop are the real code; LocalSpanStack::enter_span / exit_span are recording stubs in that harness (what they do to the span line is proved in unit local)'],
    },
    'C14': {
        'verus': [],
        'kani': ['stream_in_span_last_call', 'stream_in_span_item_call', 'sink_in_span_close', 'sink_in_span_close_err', 'sink_in_span_close_pending', 'sink_in_span_send', 'sink_in_span_flush', 'sink_in_span_ready', 'local_parent_guard_scope'],
        'assumptions': [KANI_ENV, 'K7: fastrace-futures/src/lib.rs is compiled inside the fastrace crate with the Stream/Sink traits re-declared (futures 0.3 signatures) instead of linking futures-core/futures-sink',
                        'per-call contract, complete per call'],
    },
    'C04': {
        'verus': [('spsc', ['Sender::force_send', 'Sender::send', 'bounded', 'Receiver::try_recv', 'send_command', 'force_send_command']), ('coll', [H])],
        'kani': ['cancel_root', 'finish_submits_sampled_items_only', 'root_without_reporter_is_noop'],
        'assumptions': [RTRB, TLS, LOCK],
    },
    'C09': {
        'verus': [('spsc', ['Sender::force_send', 'Sender::send', 'bounded', 'send_command', 'force_send_command']),
                  ('local', ['SpanQueue::start_span', 'SpanQueue::add_event', 'SpanQueue::add_properties', 'SpanQueue::finish_span', 'SpanLine::start_span', 'LocalSpanStack::enter_span', 'LocalSpanStack::register_span_line']),
                  ('coll', ['amend_span'])],
        'kani': ['root_lifecycle', 'cancel_root'],
        'assumptions': [RTRB, TLS, KANI_ENV],
    },
}
