"""Which obligations decide which property.

For each property:
  verus: list of (unit, [function paths whose obligations carry the property] | '*')
  kani:  list of harness ids (see kani/harnesses.json)
  assumptions: what the implication obligations => property additionally rests on
"""

RTRB = 'rtrb 0.3 is a linearizable SPSC FIFO: values accepted by Producer::push are returned by Consumer::pop exactly once and in order; is_abandoned()==true implies no further push (units/spsc/prelude.rs)'
LOCK = 'collector cycles are mutually exclusive (handle_commands always runs under GLOBAL_COLLECTOR.lock(); parking_lot trusted)'
TLS = 'COMMAND_SENDER is thread-local: only its owner thread calls Sender::send/force_send'

LOCAL_ALL = '*'
IDS_NONZERO = 'SpanId::next_id() returns a non-zero id (assumed in units/common/ids.rs; examined on the real next_id by the C02 Kani harness)'
NOW = 'fastant::Instant::now() never returns Instant::ZERO (ZERO is the "not finished" marker)'
STD = 'std wrappers in units/common/core.rs (props_extend = get_or_insert_with+extend+map(into), Option::filter, into_cow) behave as their std documentation says'

PROPS = {
    'C10': {
        'verus': [('local', '*')],
        'kani': [],
        'assumptions': [IDS_NONZERO, NOW, STD, 'guards are !Send (type level: they hold an Rc) so a scope cannot leave its thread'],
    },
    'C20': {
        'verus': [('jaeger', '*')],
        'kani': [],
        'assumptions': ['JaegerReporter::convert + serialize produce, for a slice of records, bytes whose length is a function of that slice only (enc_len); what the bytes contain is C19', 'UdpSocket::send_to sends exactly the buffer it is given as one datagram (OS)', 'ghost log: every send in try_report goes through the logged wrapper (the raw send_to stub has `requires false`)'],
    },
    'C04': {
        'verus': [('spsc', ['Sender::force_send', 'Sender::send', 'bounded', 'Receiver::try_recv'])],
        'kani': [],
        'assumptions': [RTRB, TLS, LOCK],
    },
    'C09': {
        'verus': [('spsc', ['Sender::force_send', 'Sender::send', 'bounded'])],
        'kani': [],
        'assumptions': [RTRB, TLS],
    },
}
