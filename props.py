"""Which obligations decide which property.

For each property:
  verus: list of (unit, [function paths whose obligations carry the property] | '*')
  kani:  list of harness ids (see kani/harnesses.json)
  assumptions: what the implication obligations => property additionally rests on
"""

RTRB = 'rtrb 0.3 is a linearizable SPSC FIFO: values accepted by Producer::push are returned by Consumer::pop exactly once and in order; is_abandoned()==true implies no further push (units/spsc/prelude.rs)'
LOCK = 'collector cycles are mutually exclusive (handle_commands always runs under GLOBAL_COLLECTOR.lock(); parking_lot trusted)'
TLS = 'COMMAND_SENDER is thread-local: only its owner thread calls Sender::send/force_send'

LOCAL_ALL = '*'
IDS_NONZERO = 'SpanId::next_id() returns a non-zero id (assumed in units/common/ids.rs; examined on the real next_id by the C02 Kani harness)'
NOW = 'fastant::Instant::now() never returns Instant::ZERO (ZERO is the "not finished" marker)'
STD = 'std wrappers in units/common/core.rs (props_extend = get_or_insert_with+extend+map(into), Option::filter, into_cow) behave as their std documentation says'

COLL_ENV = 'environment model of a collector cycle: drain_receivers yields ARBITRARY lists of commands (only: no empty token); no consistent cut across threads is assumed (units/coll/prelude.rs)'
COLL_STD = 'std/derive wrappers of units/coll/prelude.rs: HashMap entry/get_mut/keys wrappers, Vec::drain/extend/tail wrappers, props_to_vec, Cow clone, derived Default of ActiveCollector, SpanId hash/eq key model'
CLOCK = 'fastant: Instant::as_unix_nanos(anchor) is a function of (instant, anchor) (unix_ns); its monotonicity and wall-clock accuracy are NOT verified'
REPORTER = 'the user Reporter is modelled as a log of report() calls (ReporterLog)'

H = 'GlobalCollector::handle_commands'
COLL_DELIVERY = [H, 'drain_one', 'postprocess_span_collection', 'amend_span', 'amend_local_span', 'mount_danglings']

PROPS = {
    'C01': {
        'verus': [('spsc', ['Sender::send', 'Sender::force_send', 'bounded', 'Receiver::try_recv']), ('coll', COLL_DELIVERY)],
        'kani': [],
        'assumptions': [RTRB, TLS, LOCK, COLL_ENV, COLL_STD, REPORTER,
                        'NOT decided: "within about one report interval" and liveness of the background thread (time/liveness are outside contract verification); flush() runs one cycle after everything that happened-before it (structural)'],
    },
    'C03': {
        'verus': [('coll', [H, 'drain_one'])],
        'kani': [],
        'assumptions': [LOCK, COLL_ENV, COLL_STD, REPORTER,
                        'NOT decided: the clause "every span that finished before it on any thread" needs a consistent cut across threads, which the sequential drain of receivers does not establish (DESIGN.md D8); proved per batch: what a commit releases is everything buffered so far plus this batch, in one report call, and nothing afterwards'],
    },
    'C06': {
        'verus': [('coll', [H, 'postprocess_span_collection', 'amend_span', 'amend_local_span', 'mount_danglings']),
                  ('local', ['SpanQueue::add_event', 'SpanQueue::add_properties', 'SpanQueue::with_properties', 'SpanLine::add_event', 'SpanLine::add_properties', 'SpanLine::with_properties',
                             'LocalSpanStack::add_event', 'LocalSpanStack::add_properties', 'LocalSpanStack::with_properties', 'RawSpan::begin_with'])],
        'kani': [],
        'assumptions': [COLL_ENV, COLL_STD, STD, 'strings are opaque values: "unchanged" means the same Cow value moved or cloned'],
    },
    'C08': {
        'verus': [('coll', [H, 'drain_one']), ('spsc', ['Receiver::try_recv'])],
        'kani': [],
        'assumptions': [RTRB, LOCK, COLL_ENV, COLL_STD],
    },
    'C17': {
        'verus': [('coll', ['amend_local_span', 'mount_danglings', 'LocalSpansInner::to_span_records', 'postprocess_span_collection'])],
        'kani': [],
        'assumptions': [COLL_STD, CLOCK, 'identical "up to the clock anchor": proved per anchor value'],
    },
    'C18': {
        'verus': [('coll', ['amend_span', 'amend_local_span'])],
        'kani': [],
        'assumptions': [CLOCK, NOW, 'NOT decided: "begin time lies inside the wall-clock window of the run" and interval nesting need a monotone clock (TSC + f64 conversion are trusted)'],
    },
    'C10': {
        'verus': [('local', '*')],
        'kani': [],
        'assumptions': [IDS_NONZERO, NOW, STD, 'guards are !Send (type level: they hold an Rc) so a scope cannot leave its thread'],
    },
    'C12': {
        'verus': [('ids', '*')],
        'kani': [],
        'assumptions': ['str::split(\'-\') yields the maximal dash-free segments in order and is fused (dash_fields)',
                        'uN::from_str_radix(s, 16) is Ok(v) iff s is an optional + followed by >= 1 hex digits whose value v fits N bits (hexval)',
                        'format!("{:0Wx}", v) is the W-digit lower-case hex text of v and parses back to v; hex digits are not dashes (axioms in units/ids/lemmas.rs)',
                        'a str is determined by its characters (axiom_str_ext)',
                        'NOT covered: Display/FromStr/serde impls of TraceId and SpanId (same two std calls behind fmt::Formatter / serde plumbing, which Verus cannot take)'],
    },
    'C20': {
        'verus': [('jaeger', '*')],
        'kani': [],
        'assumptions': ['JaegerReporter::convert + serialize produce, for a slice of records, bytes whose length is a function of that slice only (enc_len); what the bytes contain is C19', 'UdpSocket::send_to sends exactly the buffer it is given as one datagram (OS)', 'ghost log: every send in try_report goes through the logged wrapper (the raw send_to stub has `requires false`)'],
    },
    'C04': {
        'verus': [('spsc', ['Sender::force_send', 'Sender::send', 'bounded', 'Receiver::try_recv']), ('coll', [H])],
        'kani': [],
        'assumptions': [RTRB, TLS, LOCK],
    },
    'C09': {
        'verus': [('spsc', ['Sender::force_send', 'Sender::send', 'bounded'])],
        'kani': [],
        'assumptions': [RTRB, TLS],
    },
}
